#!/bin/bash
# check.sh <property> <quick|thorough>     run the check for one property
# check.sh replay <replay-file>            re-execute a replay file
#
# Exit 0: the property held on everything explored (KNOWN-FINDING lines possible).
# Exit 1: "VIOLATION property=<id> replay=<path>" printed.
# Exit 2: build, watchdog, determinism or replay trouble — never a violation.
#
# Always rebuilds from /repo's CURRENT working tree: the tree is copied (minus
# .git) to a scratch directory, built with -tags verif, and the scratch copy is
# removed on exit.
set -u
HERE="$(cd "$(dirname "$0")" && pwd)"
REPO="${VERIF_REPO:-/repo}"
export GOFLAGS=-mod=mod GOPROXY=off GOSUMDB=off GOTOOLCHAIN=local
SEED="${VERIF_SEED:-1}"
SEED="${SEED#-}"
case "$SEED" in ''|*[!0-9]*) SEED=1;; esac

W="$(mktemp -d "${TMPDIR:-/tmp}/verif-XXXXXX")" || exit 2
trap 'rm -rf "$W"' EXIT

die2() { echo "HARNESS-ERROR: $*"; exit 2; }

prepare_copy() { # $1 = destination dir
  mkdir -p "$1" || die2 "mkdir"
  rsync -a --exclude .git "$REPO"/ "$1"/ || die2 "copying $REPO"
}

gen_modfile() { # $1 = low copy dir, $2 = modfile path
  sed "s#=> /repo#=> $1#" "$HERE/sim/go.mod" > "$2" || die2 "modfile"
  cat "$REPO/go.sum" "$HERE/sim/go.sum" 2>/dev/null | sort -u > "${2%.mod}.sum"
}

# Every flavour is built from a scratch copy that went through yieldinject's
# SEAMS pass: time.Now/Since/Until/Sleep and package-level math/rand functions of
# the code under test are redirected to the simulator's clock and seeded
# randomness (a no-op on a tree that uses neither). VERIF_SIM makes them active
# from process start in every process of the simulator.
export VERIF_SIM=1
build_yi() {
  [ -x "$W/yieldinject" ] && return 0
  (cd "$HERE/sim" && go build -modfile="$W/plain.mod" -o "$W/yieldinject" ./cmd/yieldinject) >"$W/build-yi.log" 2>&1 \
    || { cat "$W/build-yi.log"; die2 "build (yieldinject) failed"; }
}
build_plain() {
  [ -x "$W/verif" ] && return 0
  prepare_copy "$W/low"
  gen_modfile "$W/low" "$W/plain.mod"
  build_yi
  "$W/yieldinject" "$W/low" >"$W/seams.log" 2>&1 || { cat "$W/seams.log"; die2 "seam injection failed"; }
  (cd "$HERE/sim" && go build -modfile="$W/plain.mod" -tags "verif verifseams" -o "$W/verif" ./cmd/verif) >"$W/build-plain.log" 2>&1 \
    || { cat "$W/build-plain.log"; die2 "build (plain) failed"; }
}

build_race() {
  [ -x "$W/verif-race" ] && return 0
  build_plain
  (cd "$HERE/sim" && go build -race -modfile="$W/plain.mod" -tags "verif verifseams" -o "$W/verif-race" ./cmd/verif) >"$W/build-race.log" 2>&1 \
    || { cat "$W/build-race.log"; die2 "build (race) failed"; }
}

build_yield() {
  [ -x "$W/verif-yield" ] && return 0
  build_plain
  prepare_copy "$W/lowY"
  build_yi
  "$W/yieldinject" "$W/lowY" bitmap bmtree bitstr bitword sigbits >"$W/yi.log" 2>&1 || { cat "$W/yi.log"; die2 "yield injection failed"; }
  gen_modfile "$W/lowY" "$W/yield.mod"
  (cd "$HERE/sim" && go build -modfile="$W/yield.mod" -tags "verif verifyield verifseams" -o "$W/verif-yield" ./cmd/verif) >"$W/build-yield.log" 2>&1 \
    || { cat "$W/build-yield.log"; die2 "build (yield) failed"; }
}

if [ "${1:-}" = "replay" ]; then
  FILE="${2:?replay file}"
  [ -f "$FILE" ] || die2 "no such replay file: $FILE"
  BUILD="$(jq -r .build "$FILE")"
  case "$BUILD" in
    race) build_race; BIN="$W/verif-race";;
    yield) build_yield; BIN="$W/verif-yield";;
    *) build_plain; BIN="$W/verif";;
  esac
  mkdir -p "$W/replay"
  "$W/verif" replay -file "$FILE" -binary "$BIN" -scratch "$W/replay" ${VERIF_TRACE:+-trace}
  exit $?
fi

if [ "${1:-}" = "selftest" ]; then
  # check.sh selftest [N]: determinism self-test of every scenario on a large sample (DESIGN §9.1)
  build_plain; build_race; build_yield
  mkdir -p "$W/scratch"
  "$W/verif" selftest -n "${2:-200}" -seed "$SEED" -scratch "$W/scratch" -out "$HERE/evidence/determinism.json" \
    -legs "section-ops=$W/verif,frames-clean=$W/verif,frames-faults=$W/verif,builder-hist=$W/verif,builder-hist-r=$W/verif-race,tail-acks=$W/verif,readers-r=$W/verif-race,readers-y=$W/verif-yield"
  exit $?
fi

PROP="${1:?property id}"
TIER="${2:-${VERIF_TIER:-quick}}"
WORKERS=8
[ "$TIER" = "thorough" ] && WORKERS=16
[ -n "${VERIF_WORKERS:-}" ] && WORKERS="$VERIF_WORKERS"
LEVEL=exploration

case "$PROP" in
  C18) build_plain; LEGS="section-ops=$W/verif";;
  C06) build_plain; LEGS="frames-clean=$W/verif";;
  C07) build_plain; LEGS="frames-faults=$W/verif"; LEVEL=fault_enumeration;;
  C12) build_race; LEGS="builder-hist=$W/verif,builder-hist-r=$W/verif-race";;
  C15) build_plain; LEGS="tail-acks=$W/verif";;
  C19) build_race; build_yield; LEGS="readers-r=$W/verif-race,readers-y=$W/verif-yield";;
  *) die2 "property $PROP has no check (see MANIFEST.json not_applicable)";;
esac

EVDIR="${VERIF_EVIDENCE_DIR:-$HERE/evidence}"   # overridden only by the mutant runner, so that trial runs
RPDIR="${VERIF_REPLAY_DIR:-$HERE/replays}"      # against scratch copies never touch the committed evidence
mkdir -p "$EVDIR" "$RPDIR" "$W/scratch"
"$W/verif" supervise -prop "$PROP" -tier "$TIER" -seed "$SEED" -workers "$WORKERS" -legs "$LEGS" \
  -level "$LEVEL" -evidence "$EVDIR/$PROP.json" -replays "$RPDIR" \
  -known "$HERE/known_findings.txt" -scratch "$W/scratch"
RC=$?
# keep the last thorough evidence next to the (quick-tier) evidence file that every run rewrites
if [ "$TIER" = "thorough" ] && [ -f "$EVDIR/$PROP.json" ]; then mkdir -p "$EVDIR/thorough" && cp "$EVDIR/$PROP.json" "$EVDIR/thorough/$PROP.json"; fi
exit $RC
