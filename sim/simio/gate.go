package simio

import (
	"runtime"
	"sync"
	"sync/atomic"
	"time"

	"verifsim/engine"
)

// Gate is the part of a simulated I/O object that deals with SLOW calls and
// with calls that arrive from a goroutine other than the task's own.
//
// A stall is a fault like any other: armed per operation by the plan. When the
// first non-empty underlying call of that operation arrives, StallNs of
// SIMULATED time pass before it is served (engine.SeamAdvance: timers and
// deadlines of the code under test that fall due fire at once; no real time is
// spent). Code that calls the underlying object on the caller's goroutine sees
// nothing but a clock that has moved. Code that handed the call to a goroutine
// of its own and waits for it under a timeout sees the timeout fire while the
// call is still in flight: the call is held until the operation has returned to
// the task (or 20 ms of real time have passed, whichever is first) and is then
// reported as LATE — it reached the underlying object after the library call
// that caused it had returned, so no count or error that call returned can
// have accounted for it.
//
// A call that arrives from another goroutine than the task's is never a
// scheduling point (the scheduler's hand-off belongs to the task's goroutine).
// sleepBudget: how many 250 µs naps all gates of this process may still take
// while holding a stalled call (2 s in total).
var sleepBudget int64 = 8000

type Gate struct {
	mu       sync.Mutex // serialises the underlying object when foreign goroutines call it
	inOp     int32
	stalling int32
	late     int32
	lateNote string
	taskGoid uint64
	stallNs  int64
	stalled  bool
	used     bool  // Begin has been called at least once: calls are bracketed by operations
	foreign  int32 // calls served on another goroutine than the task's, this operation
	Fired    *map[string]int
}

// Begin is called by the task before the library call of one operation.
func (g *Gate) Begin(stallNs int64) {
	g.used = true
	g.stallNs, g.stalled = stallNs, false
	atomic.StoreInt32(&g.foreign, 0)
	if engine.SeamTimers != nil && engine.SeamTimers() > 0 {
		g.taskGoid = engine.Goid()
	} else {
		g.taskGoid = 0
	}
	atomic.StoreInt32(&g.inOp, 1)
}

// End is called by the task after the library call has returned. It waits for a
// held call to land and reports how many calls arrived late since the last End
// (with a description of the first) and how many were served on a foreign
// goroutine during the operation.
func (g *Gate) End() (late int, note string, foreign int) {
	atomic.StoreInt32(&g.inOp, 0)
	for i := 0; i < 1000 && atomic.LoadInt32(&g.stalling) > 0; i++ {
		runtime.Gosched()
	}
	for i := 0; i < 400 && atomic.LoadInt32(&g.stalling) > 0; i++ {
		time.Sleep(250 * time.Microsecond)
	}
	g.mu.Lock()
	late, note = int(g.late), g.lateNote
	g.late, g.lateNote = 0, ""
	g.mu.Unlock()
	return late, note, int(atomic.LoadInt32(&g.foreign))
}

// Late reports calls that arrived while no operation was in flight (end of run).
func (g *Gate) Late() (int, string) {
	g.mu.Lock()
	defer g.mu.Unlock()
	return int(g.late), g.lateNote
}

// enter is called at the start of every underlying call with n = bytes offered
// or wanted. It returns yield = this call may be a scheduling point, and
// late = the operation it belongs to has already returned (the call must not be
// served as part of it). The caller holds no lock.
func (g *Gate) enter(n int, what string, off int64) (yield, late bool) {
	if !g.used {
		return true, false // an object whose calls are not bracketed by operations: nothing to decide
	}
	timers := engine.SeamTimers != nil && engine.SeamTimers() > 0
	pending := g.stallNs > 0 && !g.stalled
	if !timers {
		// The code under test has never created a timer: a slow call can only be
		// seen through the clock, and which goroutine calls is not looked at.
		if pending && n > 0 && g.claimStall() {
			g.count("io.stall")
			if engine.SeamAdvance != nil {
				engine.SeamAdvance(time.Duration(g.stallNs))
			}
		}
		return true, false
	}
	if g.taskGoid == 0 {
		// timers appeared after this operation began (or outside any operation)
		// (whose goroutine this is cannot be told: not a scheduling point)
		if atomic.LoadInt32(&g.inOp) == 1 {
			return false, false
		}
		g.noteLate(n, what, off)
		return false, true
	}
	foreign := engine.Goid() != g.taskGoid
	if foreign {
		atomic.AddInt32(&g.foreign, 1)
	}
	if pending && n > 0 && g.claimStall() {
		d := time.Duration(g.stallNs)
		g.count("io.stall")
		if !foreign {
			if engine.SeamAdvance != nil && engine.SeamAdvance(d) > 0 {
				g.count("io.stall.timer_fired")
			}
		} else {
			// Held until the operation has returned to the task — which it does
			// only if the code under test stops waiting for this call (a timeout
			// fired by the simulated time that passes here). Giving way with
			// Gosched is enough when the workers run on one processor (plain
			// builds do): the runtime fires the timers that Advance made due and
			// runs the waiting goroutine before this one continues. A bounded
			// amount of real sleeping is the fallback on several processors; its
			// total per process is capped so that code which legitimately waits for
			// its own goroutine never makes a check slow.
			atomic.AddInt32(&g.stalling, 1)
			fired := 0
			for i := 0; i < 300 && atomic.LoadInt32(&g.inOp) == 1; i++ {
				if i%100 == 0 && engine.SeamAdvance != nil {
					fired += engine.SeamAdvance(d)
				}
				runtime.Gosched()
			}
			for i := 0; i < 8 && atomic.LoadInt32(&g.inOp) == 1 && atomic.AddInt64(&sleepBudget, -1) >= 0; i++ {
				if engine.SeamAdvance != nil {
					fired += engine.SeamAdvance(d)
				}
				time.Sleep(250 * time.Microsecond)
			}
			if fired > 0 {
				g.count("io.stall.timer_fired")
			}
			defer atomic.AddInt32(&g.stalling, -1)
		}
	}
	if atomic.LoadInt32(&g.inOp) == 0 {
		g.noteLate(n, what, off)
		return false, true
	}
	return !foreign, false
}

func (g *Gate) count(k string) {
	if g.Fired != nil {
		g.mu.Lock()
		(*g.Fired)[k]++
		g.mu.Unlock()
	}
}

func (g *Gate) claimStall() bool {
	g.mu.Lock()
	defer g.mu.Unlock()
	if g.stalled {
		return false
	}
	g.stalled = true
	return true
}

func (g *Gate) noteLate(n int, what string, off int64) {
	g.mu.Lock()
	if g.late == 0 {
		g.lateNote = what + " of " + itoa(int64(n)) + " bytes at " + itoa(off) + " arrived after the library call it belongs to had returned"
	}
	g.late++
	g.mu.Unlock()
}

func itoa(x int64) string {
	if x == 0 {
		return "0"
	}
	neg := x < 0
	if neg {
		x = -x
	}
	var b [24]byte
	i := len(b)
	for x > 0 {
		i--
		b[i] = byte('0' + x%10)
		x /= 10
	}
	if neg {
		i--
		b[i] = '-'
	}
	return string(b[i:])
}
