// Package simio holds the simulator-owned I/O: a disk (io.WriterAt/io.ReaderAt),
// a byte stream (io.Reader) and a writer (io.Writer), each with planned faults.
// Faults are armed per OPERATION and in BYTES, never by underlying-call index, so
// that a refactor which splits or merges underlying calls cannot shift a fault.
// No fault is ever applied to a zero-length request.
package simio

import (
	"errors"
	"io"
	"sort"

	"verifsim/engine"
)

var (
	ErrInjected = errors.New("simio: injected I/O error")
	ErrNoSpace  = errors.New("simio: no space left on device")
	ErrCrashed  = errors.New("simio: disk crashed")
)

const pageSize = 4096

// Recv is one WriteAt call as received by the disk: the ground truth for
// "which bytes reached the underlying writer, where".
type Recv struct {
	Seq     int    // index in the disk log
	Task    int    // which handle issued it
	Off     int64  // absolute offset
	Offered int    // len(p)
	Data    []byte // the bytes ACCEPTED (prefix of p), copied
	Err     error
}

// Disk is a sparse byte image plus an append-only log of every call received.
type Disk struct {
	pages     map[int64][]byte
	Log       []Recv
	HighWater int64 // 1 + highest accepted byte offset
	Capacity  int64 // bytes at or beyond it are never accepted; <0: none
	// CrashAfter: once this many bytes in total have been accepted the disk
	// crashes: the in-flight write is torn there and everything later fails.
	CrashAfter int64 // <0: never
	Accepted   int64
	Crashed    bool
	// Tail describes what lies after HighWater when the image is read back.
	TailKind string // "eof" | "zeros" | "garbage"
	TailLen  int64
	TailSeed uint64

	Fired map[string]int // fault kind -> times it actually fired
}

func NewDisk() *Disk {
	return &Disk{pages: map[int64][]byte{}, Capacity: -1, CrashAfter: -1, TailKind: "eof", Fired: map[string]int{}}
}

// Arm describes the fault armed on one handle for the duration of one operation.
type Arm struct {
	Active bool
	// Budget: the disk accepts at most this many more bytes from this handle
	// during the operation, then the fault triggers.
	Budget int64
	// Kind: "short_nil_each" = every call accepts at most Budget bytes, nil error;
	// "fail" (accept Budget bytes, return Err), "withfull" (accept all the
	// bytes of the first non-empty request and ALSO return Err), "short_nil"
	// (accept Budget bytes and return nil: violates io.WriterAt, separate
	// sub-configuration).
	Kind   string
	Sticky bool // after firing, every later non-empty write on this handle fails with 0 bytes
	Err    error
	fired  bool
	// StallNs > 0: the first non-empty call of the operation is SLOW — that much
	// simulated time passes before it is served (see Gate). Independent of Kind;
	// Active need not be set.
	StallNs int64
}

// Handle is one party's view of the disk. It implements io.WriterAt and
// io.ReaderAt. Yield, if set, is called at the start of every call: the seam at
// which the scheduler may run another task.
type Handle struct {
	D      *Disk
	Task   int
	Yield  func()
	arm    Arm
	sticky error
	// per-operation accounting
	OpFirst int // index in D.Log of the first call of the current operation
	G       Gate
	// set by EndOp: underlying calls that arrived after the operation had
	// returned (with a description of the first), and calls that were served on
	// another goroutine than the task's
	LateCalls    int
	LateNote     string
	ForeignCalls int
}

func (d *Disk) Handle(task int, yield func()) *Handle {
	return &Handle{D: d, Task: task, Yield: yield}
}

// BeginOp marks the start of a logical operation and arms (or clears) its fault.
func (h *Handle) BeginOp(a Arm) {
	h.arm = a
	h.OpFirst = len(h.D.Log)
	h.G.Fired = &h.D.Fired
	h.G.Begin(a.StallNs)
}

// EndOp disarms and reports whether the armed fault fired.
func (h *Handle) EndOp() (fired bool) {
	fired = h.arm.fired
	h.arm = Arm{}
	h.LateCalls, h.LateNote, h.ForeignCalls = h.G.End()
	return
}

// OpRecv returns the calls this handle made since BeginOp.
func (h *Handle) OpRecv() []Recv {
	var out []Recv
	for i := h.OpFirst; i < len(h.D.Log); i++ {
		if h.D.Log[i].Task == h.Task {
			out = append(out, h.D.Log[i])
		}
	}
	return out
}

// ErrLate is what a call gets that arrives after the library call it belongs to
// has returned: it is not served.
var ErrLate = errors.New("simio: call arrived after the operation had returned")

func (h *Handle) WriteAt(p []byte, off int64) (int, error) {
	yield, late := h.G.enter(len(p), "WriteAt", off)
	if late {
		return 0, ErrLate
	}
	if yield && h.Yield != nil {
		h.Yield()
	}
	h.G.mu.Lock()
	defer h.G.mu.Unlock()
	d := h.D
	if off < 0 {
		// a negative absolute offset is recorded (it is evidence of a
		// containment failure) and refused like a real file would.
		d.Log = append(d.Log, Recv{Seq: len(d.Log), Task: h.Task, Off: off, Offered: len(p), Err: errors.New("simio: negative offset")})
		return 0, d.Log[len(d.Log)-1].Err
	}
	accept := int64(len(p))
	var err error
	if len(p) > 0 {
		switch {
		case d.Crashed:
			accept, err = 0, ErrCrashed
		case h.sticky != nil:
			accept, err = 0, h.sticky
			d.Fired["disk.sticky_refusal"]++
		case h.arm.Active && h.arm.Kind == "short_nil_each":
			// EVERY call of the operation accepts at most Budget bytes and reports
			// no error (a writer that violates io.WriterAt repeatedly): an
			// implementation that loops until everything is written sees several
			// short counts in one operation
			if h.arm.Budget < accept {
				accept = h.arm.Budget
				if !h.arm.fired {
					d.Fired["disk.short_nil_each"]++
				}
				h.arm.fired = true
			}
		case h.arm.Active && !h.arm.fired:
			switch h.arm.Kind {
			case "fail":
				// Faults are positions in the byte stream: if the disk-full point
				// comes strictly BEFORE the armed failure point, the disk-full rule
				// below decides this call and the armed fault has not been reached.
				capFirst := false
				if d.Capacity >= 0 {
					room := d.Capacity - off
					if room < 0 {
						room = 0
					}
					capFirst = room < h.arm.Budget && room < accept
				}
				if capFirst {
					// handled by the capacity rule; the budget shrinks by what it accepts
				} else if h.arm.Budget < accept {
					accept, err = h.arm.Budget, h.arm.Err
					h.arm.fired = true
					if accept == 0 {
						d.Fired["disk.fail_zero"]++
					} else {
						d.Fired["disk.fail_partial"]++
					}
					if h.arm.Sticky {
						h.sticky = h.arm.Err
					}
				} else {
					h.arm.Budget -= accept
				}
			case "withfull":
				err = h.arm.Err
				h.arm.fired = true
				d.Fired["disk.fail_withfull"]++
				if h.arm.Sticky {
					h.sticky = h.arm.Err
				}
			case "short_nil":
				if h.arm.Budget < accept {
					accept = h.arm.Budget
					h.arm.fired = true
					d.Fired["disk.short_nil"]++
				} else {
					h.arm.Budget -= accept
				}
			}
		}
		if d.Capacity >= 0 && off+accept > d.Capacity {
			na := d.Capacity - off
			if na < 0 {
				na = 0
			}
			if na < accept {
				accept = na
				if err == nil {
					err = ErrNoSpace
				}
				d.Fired["disk.full"]++
				if h.arm.Active && !h.arm.fired && h.arm.Kind == "fail" {
					h.arm.Budget -= accept
				}
			}
		}
		if !d.Crashed && d.CrashAfter >= 0 && d.Accepted+accept >= d.CrashAfter {
			// the crash instant falls inside (or right at the end of) this write
			keep := d.CrashAfter - d.Accepted
			if keep < accept {
				accept = keep
			}
			d.Crashed = true
			err = ErrCrashed
			d.Fired["disk.crash"]++
			if keep > 0 && keep < int64(len(p)) {
				d.Fired["disk.crash_torn"]++
			}
		}
	}
	data := make([]byte, accept)
	copy(data, p[:accept])
	d.store(off, data)
	d.Accepted += accept
	d.Log = append(d.Log, Recv{Seq: len(d.Log), Task: h.Task, Off: off, Offered: len(p), Data: data, Err: err})
	return int(accept), err
}

func (d *Disk) store(off int64, data []byte) {
	for len(data) > 0 {
		pg := off / pageSize
		po := off % pageSize
		page := d.pages[pg]
		if page == nil {
			page = make([]byte, pageSize)
			d.pages[pg] = page
		}
		n := copy(page[po:], data)
		data = data[n:]
		off += int64(n)
	}
	if off > d.HighWater {
		d.HighWater = off
	}
}

// ByteAt returns the stored byte (0 if never written) — for invariants.
func (d *Disk) ByteAt(off int64) byte {
	page := d.pages[off/pageSize]
	if page == nil {
		return 0
	}
	return page[off%pageSize]
}

// Bytes returns [off, off+n) of the image.
func (d *Disk) Bytes(off int64, n int) []byte {
	out := make([]byte, n)
	for i := range out {
		out[i] = d.ByteAt(off + int64(i))
	}
	return out
}

// End is the length of the readable image: HighWater plus the configured tail.
func (d *Disk) End() int64 {
	if d.TailKind == "zeros" || d.TailKind == "garbage" {
		return d.HighWater + d.TailLen
	}
	return d.HighWater
}

func (d *Disk) readByte(off int64) byte {
	if off < d.HighWater {
		return d.ByteAt(off)
	}
	if d.TailKind == "garbage" {
		return engine.Content(d.TailSeed, 7, int(off-d.HighWater))
	}
	return 0
}

// ReadAt reads the durable image (io.ReaderAt contract: n < len(p) implies a
// non-nil error).
func (h *Handle) ReadAt(p []byte, off int64) (int, error) {
	if h.G.taskGoid == 0 && h.Yield != nil { // (reads are not gated: only a scheduling point on the task's own goroutine)
		h.Yield()
	}
	d := h.D
	end := d.End()
	if off >= end {
		return 0, io.EOF
	}
	n := 0
	for n < len(p) && off+int64(n) < end {
		p[n] = d.readByte(off + int64(n))
		n++
	}
	if n < len(p) {
		return n, io.EOF
	}
	return n, nil
}

// Image returns all readable bytes from off to End (for recovery oracles).
func (d *Disk) Image(off int64) []byte {
	end := d.End()
	if off >= end {
		return nil
	}
	out := make([]byte, end-off)
	for i := range out {
		out[i] = d.readByte(off + int64(i))
	}
	return out
}

// Hash is a deterministic hash of the accepted image (sorted pages).
func (d *Disk) Hash() uint64 {
	keys := make([]int64, 0, len(d.pages))
	for k := range d.pages {
		keys = append(keys, k)
	}
	sort.Slice(keys, func(i, j int) bool { return keys[i] < keys[j] })
	h := uint64(0)
	for _, k := range keys {
		h = engine.HashU64(h, uint64(k))
		h = engine.HashBytes(h, d.pages[k])
	}
	return engine.HashU64(h, uint64(d.HighWater))
}

// FiredSorted returns fault kinds that fired, sorted, with counts.
func (d *Disk) FiredSorted() ([]string, []int) {
	keys := make([]string, 0, len(d.Fired))
	for k := range d.Fired {
		keys = append(keys, k)
	}
	sort.Strings(keys)
	vals := make([]int, len(keys))
	for i, k := range keys {
		vals[i] = d.Fired[k]
	}
	return keys, vals
}
