package simio

// Writer is a simulated io.Writer with the same byte-budget fault model as the
// disk. It records every byte it accepted. It never fails a zero-length Write.
type Writer struct {
	Got []byte // every byte accepted, in order

	// Budget <0: no fault. Otherwise the writer accepts Budget more bytes and
	// then fails with Err.
	Budget int64
	// Mode "partial": the write that crosses the budget is cut there and
	// returns (accepted, Err). Mode "boundary": the write that crosses the
	// budget is accepted whole and the NEXT non-empty write fails with (0, Err)
	// (failure at a call boundary, e.g. between header and body). Mode "eager":
	// like partial, but when a write ends EXACTLY at the budget the error is
	// reported together with that (fully accepted) write: (len(p), Err).
	Mode   string
	Sticky bool // after the failure every later non-empty write fails; otherwise the writer recovers (transient)
	Err    error

	Failed       bool // the fault fired
	WritesAfter  int  // non-empty Write calls made after the failure
	AcceptedPost int  // bytes accepted after the failure (transient writers accept them!)
	Calls        int
	Yield        func()
	armedNext    bool
	bracketed    bool
	Fired        map[string]int
	G            Gate
}

func NewWriter() *Writer { return &Writer{Budget: -1, Fired: map[string]int{}} }

// BeginOp / EndOp bracket one library call that writes to w (stallNs > 0: the
// first non-empty Write of the call is slow, see Gate). Optional: a Writer that
// is never bracketed behaves as before.
func (w *Writer) BeginOp(stallNs int64) {
	w.G.Fired = &w.Fired
	w.bracketed = true
	w.G.Begin(stallNs)
}
func (w *Writer) EndOp() (late int, note string, foreign int) { return w.G.End() }

func (w *Writer) Write(p []byte) (int, error) {
	yield := true
	if w.bracketed {
		var late bool
		yield, late = w.G.enter(len(p), "Write", int64(len(w.Got)))
		if late {
			return 0, ErrLate
		}
		w.G.mu.Lock()
		defer w.G.mu.Unlock()
	}
	w.Calls++
	if yield && w.Yield != nil {
		w.Yield()
	}
	if len(p) == 0 {
		return 0, nil
	}
	if w.Failed {
		w.WritesAfter++
		if w.Sticky {
			w.Fired["wr.sticky_refusal"]++
			return 0, w.Err
		}
		w.Got = append(w.Got, p...)
		w.AcceptedPost += len(p)
		return len(p), nil
	}
	if w.Budget < 0 {
		w.Got = append(w.Got, p...)
		return len(p), nil
	}
	if w.armedNext {
		w.Failed = true
		w.Fired["wr.fail_boundary"]++
		return 0, w.Err
	}
	n := int64(len(p))
	if w.Mode == "boundary" {
		if w.Budget == 0 {
			w.Failed = true
			w.Fired["wr.fail_boundary"]++
			return 0, w.Err
		}
		w.Got = append(w.Got, p...)
		if n >= w.Budget {
			w.armedNext = true
			w.Budget = 0
		} else {
			w.Budget -= n
		}
		return len(p), nil
	}
	if w.Mode == "eager" && n == w.Budget {
		w.Got = append(w.Got, p...)
		w.Failed = true
		w.Fired["wr.fail_with_full_write"]++
		return len(p), w.Err
	}
	// partial
	if n <= w.Budget {
		w.Got = append(w.Got, p...)
		w.Budget -= n
		return len(p), nil
	}
	k := int(w.Budget)
	w.Got = append(w.Got, p[:k]...)
	w.Failed = true
	if k == 0 {
		w.Fired["wr.fail_zero"]++
	} else {
		w.Fired["wr.fail_partial"]++
	}
	return k, w.Err
}
