package simio

import (
	"io"

	"verifsim/engine"
)

// ChunkPolicy decides how many bytes the j-th Read call may return. It is a
// pure function of (policy, j): nothing is drawn at run time.
type ChunkPolicy struct {
	Kind string `json:"kind"`           // "whole" | "fixed" | "one" | "hashed"
	N    int    `json:"n,omitempty"`    // fixed: chunk size; hashed: maximum
	Seed uint64 `json:"seed,omitempty"` // hashed
}

func (c ChunkPolicy) Chunk(call int) int {
	switch c.Kind {
	case "one":
		return 1
	case "fixed":
		if c.N < 1 {
			return 1
		}
		return c.N
	case "hashed":
		m := c.N
		if m < 1 {
			m = 1
		}
		return 1 + int(engine.H(c.Seed, uint64(call))%uint64(m))
	}
	return 1 << 30
}

// LivenessAbort is panicked by a Stream when a single library call keeps
// reading a dead stream (bounded-liveness probe, DESIGN §4.2 F6).
type LivenessAbort struct{ Reads int }

// Stream is a simulated io.Reader over a byte slice or another reader.
type Stream struct {
	data []byte    // source (fast path) …
	src  io.Reader // … or a wrapped reader (AtToReader over the disk)
	Pos  int       // bytes delivered so far

	Policy    ChunkPolicy
	StallSeed uint64 // (0,nil) returns: at call j iff StallDen>0 && H(StallSeed,j)%StallDen==0, never 3 in a row
	StallDen  int
	Piggyback bool  // deliver the terminal error together with the last bytes
	Cut       int   // <0: none. After Cut bytes: io.EOF forever (truncation / producer crash)
	ErrAt     int   // <0: none. After ErrAt bytes: Err
	Err       error // injected read error

	Calls     int
	stalls    int
	dead      error
	PostDead  int // Read calls made after the stream reported its terminal error
	CallReads int // Read calls after death within the current library call
	MaxDead   int // >0: abort a call that reads a dead stream more than this many times

	Fired map[string]int
	G     Gate
	gated bool
}

// BeginOp / EndOp bracket one library call that reads from s (stallNs > 0: its
// first Read is slow, see Gate). Optional.
func (s *Stream) BeginOp(stallNs int64) {
	s.G.Fired = &s.Fired
	s.gated = true
	s.G.Begin(stallNs)
}
func (s *Stream) EndOp() (late int, note string, foreign int) { return s.G.End() }

func NewStream(data []byte, pol ChunkPolicy) *Stream {
	return &Stream{data: data, Policy: pol, Cut: -1, ErrAt: -1, Fired: map[string]int{}, MaxDead: 8}
}

func NewStreamOver(src io.Reader, pol ChunkPolicy) *Stream {
	return &Stream{src: src, Policy: pol, Cut: -1, ErrAt: -1, Fired: map[string]int{}, MaxDead: 8}
}

// BeginCall resets the per-library-call liveness counter.
func (s *Stream) BeginCall() { s.CallReads = 0 }

// limit returns the position at which the stream ends and the error reported there.
func (s *Stream) limit() (int, error) {
	lim, err := 1<<62, error(nil)
	if s.data != nil || s.src == nil {
		lim, err = len(s.data), io.EOF
	}
	if s.Cut >= 0 && s.Cut <= lim {
		lim, err = s.Cut, io.EOF
	}
	if s.ErrAt >= 0 && s.ErrAt < lim {
		lim, err = s.ErrAt, s.Err
	}
	if s.ErrAt >= 0 && s.ErrAt == lim && s.Err != nil && s.Cut != lim {
		// an injected error exactly at the natural end takes precedence over EOF
		err = s.Err
	}
	return lim, err
}

func (s *Stream) Read(p []byte) (int, error) {
	if s.gated {
		_, late := s.G.enter(len(p), "Read", int64(s.Pos))
		if late {
			return 0, ErrLate
		}
		s.G.mu.Lock()
		defer s.G.mu.Unlock()
	}
	s.Calls++
	if len(p) == 0 {
		return 0, nil
	}
	if s.dead != nil {
		s.PostDead++
		s.CallReads++
		if s.MaxDead > 0 && s.CallReads > s.MaxDead {
			panic(LivenessAbort{s.CallReads})
		}
		return 0, s.dead
	}
	lim, lerr := s.limit()
	avail := lim - s.Pos
	if avail <= 0 {
		s.dead = lerr
		s.noteEnd(lerr)
		return 0, lerr
	}
	if s.StallDen > 0 && s.stalls < 2 && engine.H(s.StallSeed, uint64(s.Calls))%uint64(s.StallDen) == 0 {
		s.stalls++
		s.Fired["rd.stall"]++
		return 0, nil
	}
	s.stalls = 0
	n := len(p)
	if c := s.Policy.Chunk(s.Calls); c < n {
		n = c
		s.Fired["rd.chunk"]++
	}
	if avail < n {
		n = avail
	}
	if s.src != nil {
		m, err := s.src.Read(p[:n])
		s.Pos += m
		if err != nil {
			s.dead = err
			s.noteEnd(err)
		}
		return m, err
	}
	copy(p, s.data[s.Pos:s.Pos+n])
	s.Pos += n
	if s.Pos == lim && s.Piggyback {
		s.dead = lerr
		s.noteEnd(lerr)
		s.Fired["rd.eof_piggyback"]++
		return n, lerr
	}
	return n, nil
}

func (s *Stream) noteEnd(err error) {
	switch {
	case s.Cut >= 0 && s.Pos == s.Cut && err == io.EOF:
		s.Fired["rd.cut"]++
	case err != nil && err == s.Err:
		s.Fired["rd.err"]++
	}
}
