package scen

// spare capacity (elements) behind every arena slice, and its sentinel filling
const (
	spareCap   = 8
	sentinel64 = uint64(0x5e5e5e5e5e5e5e5e)
	sentinel32 = int32(0x5e5e5e5e)
	sentinel8  = byte(0x5e)
)
