package scen

// spare capacity (elements) behind every arena slice, and its sentinel filling
const (
	spareCap   = 8
	sentinel64 = uint64(0x5e5e5e5e5e5e5e5e)
	sentinel32 = int32(0x5e5e5e5e)
	sentinel8  = byte(0x5e)
)

// The TWIN world (readers_run.go) holds the same inputs — equal contents, equal
// lengths — in different surroundings: another sentinel behind every slice, and
// every other slice with cap == len (the sentinel is still there in memory, but
// beyond the capacity). Arguments that are equal as VALUES must give equal
// results: a function whose result changes with what lies behind len(x), or
// with cap(x), depends on something that is not its argument.
const (
	twin64 = uint64(0xa1a1a1a1a1a1a1a1)
	twin32 = int32(0x21a1a1a1)
	twin8  = byte(0xa1)
)

// byteRanges records where the arena's []byte inputs live, so that a STRING
// result that aliases one of them can be recognised: a Go string is immutable
// by contract; one that shares memory with a caller-owned []byte changes when
// the caller reuses its buffer, i.e. the result is not a value of the arguments.
type byteRanges struct{ lo, hi []uintptr }

func (b *byteRanges) add(lo, n uintptr) {
	if n == 0 {
		return
	}
	b.lo = append(b.lo, lo)
	b.hi = append(b.hi, lo+n)
}

func (b *byteRanges) contains(p uintptr) bool {
	for i := range b.lo {
		if p >= b.lo[i] && p < b.hi[i] {
			return true
		}
	}
	return false
}
