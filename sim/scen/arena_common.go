package scen

// spare capacity (elements) behind every arena slice, and its sentinel filling
const (
	spareCap   = 8
	sentinel64 = uint64(0x5e5e5e5e5e5e5e5e)
	sentinel32 = int32(0x5e5e5e5e)
	sentinel8  = byte(0x5e)
)

// byteRanges records where the arena's []byte inputs live, so that a STRING
// result that aliases one of them can be recognised: a Go string is immutable
// by contract; one that shares memory with a caller-owned []byte changes when
// the caller reuses its buffer, i.e. the result is not a value of the arguments.
type byteRanges struct{ lo, hi []uintptr }

func (b *byteRanges) add(lo, n uintptr) {
	if n == 0 {
		return
	}
	b.lo = append(b.lo, lo)
	b.hi = append(b.hi, lo+n)
}

func (b *byteRanges) contains(p uintptr) bool {
	for i := range b.lo {
		if p >= b.lo[i] && p < b.hi[i] {
			return true
		}
	}
	return false
}
