//go:build !verif

package scen

// HooksBuilt reports whether /repo was compiled with its `verif` hooks.
const HooksBuilt = false

func setReclaimThreshold(bits int64) int64 { return bits }
func selectTableCopy() []byte              { return nil }
func idxToPathCopy() []uint64              { return nil }
