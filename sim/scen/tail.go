package scen

import (
	"container/heap"
	"encoding/json"
	"fmt"
	"sort"
	"strings"

	"github.com/openacid/low/bitmap"

	"verifsim/engine"
)

// ---------------------------------------------------------------------------
// C15 — scenario "tail-acks" (DESIGN §4.4)
//
// TailBitmap is the "everything below Offset is acknowledged" window. Its Set
// histories are produced here the way deployment produces them: K producer
// tasks send acknowledgement ids over a simulated transport that duplicates,
// reorders, drops and delays them (including "delayed past compaction"); one
// owner task applies Set for each delivery and probes. The structure itself is
// single-owner and meets no fault: the verdict comes from the reference model,
// checked after EVERY call.
// ---------------------------------------------------------------------------

type TailPlan struct {
	Offset    int64          `json:"offset"`    // initial offset (multiple of 64)
	Threshold int64          `json:"threshold"` // reclaimThreshold in bits (knob); 0 = leave the default
	Producers []TailProducer `json:"producers"`
	NetSeed   uint64         `json:"net_seed"`
	DupDen    int            `json:"dup_den,omitempty"`       // duplicate a message with probability 1/DupDen
	DropDen   int            `json:"drop_den,omitempty"`      // drop with probability 1/DropDen
	Window    int            `json:"window,omitempty"`        // reorder: delay each message by H%Window ticks
	HoldDen   int            `json:"hold_den,omitempty"`      // hold a message until the window has moved past it (delay_past_compaction)
	CompactEv int            `json:"compact_every,omitempty"` // explicit Compact every N-th delivery (0: never)
	ProbeSeed uint64         `json:"probe_seed"`
	// Instances: number of independent TailBitmaps alive in the run (several
	// windows in one process); producer i feeds instance i % Instances. Each has
	// its own reference model: one instance must never affect another.
	Instances int `json:"instances,omitempty"`
	// Far > 0: after the deliveries, one more Set lands Far bits beyond the
	// initial offset (>= 2^31: a stored tail longer than an int32 can index;
	// about 256 MiB of words), followed by probes there.
	Far int64 `json:"far,omitempty"`
	// Dirty > 0: the TailBitmaps are not made by NewTailBitmap but are literals
	// over a buffer the caller has used before — &TailBitmap{Offset: o, Words:
	// buf[:0]} with Dirty words of capacity, all non-zero (the fields are
	// exported, the library's own tests build literals). A word the bitmap
	// grows into must still start as zero.
	Dirty int             `json:"dirty,omitempty"`
	Sched engine.Schedule `json:"sched"`
}

type TailProducer struct {
	Start  int64  `json:"start"`
	Count  int    `json:"count"`
	Stride int64  `json:"stride"`
	Order  string `json:"order"` // asc | desc | shuffle
	Seed   uint64 `json:"seed,omitempty"`
}

func (p TailProducer) ids() []int64 {
	out := make([]int64, p.Count)
	for i := range out {
		out[i] = p.Start + int64(i)*p.Stride
	}
	switch p.Order {
	case "desc":
		for i, j := 0, len(out)-1; i < j; i, j = i+1, j-1 {
			out[i], out[j] = out[j], out[i]
		}
	case "shuffle":
		for i := len(out) - 1; i > 0; i-- {
			j := int(engine.H(p.Seed, uint64(i)) % uint64(i+1))
			out[i], out[j] = out[j], out[i]
		}
	}
	return out
}

type Tail struct{}

func (Tail) Name() string     { return "tail-acks" }
func (Tail) Property() string { return "C15" }

func (Tail) Decode(raw []byte) (engine.Plan, error) {
	var p TailPlan
	if err := json.Unmarshal(raw, &p); err != nil {
		return nil, err
	}
	return &p, nil
}

func (Tail) Generate(seed uint64, tier string) engine.Plan {
	r := engine.NewPRNG(seed)
	p := &TailPlan{NetSeed: r.Uint64(), ProbeSeed: r.Uint64()}
	if strings.HasSuffix(tier, "/rare1") {
		// placed at one run index per 1024: more than 8192 consecutive complete
		// words queued behind the first word when it completes (half a million
		// ids acknowledged back to front) — a compaction that works in bounded
		// slices, by count or by time, has to finish the job all the same
		p.Offset = r.PickInt64(0, 64, 1<<40)
		p.Threshold = 0
		p.Producers = []TailProducer{{Start: p.Offset, Count: 8192*64 + 64*r.PickInt(1, 3, 40), Stride: 1, Order: "desc"}}
		p.Instances = 1
		p.Sched = engine.Schedule{Mode: "seq"}
		return p
	}
	p.Offset = r.PickInt64(0, 0, 64, 640, 1<<40)
	if r.Chance(1, 8) {
		// around the widths a narrower intermediate would have
		p.Offset = r.PickInt64(1<<15, 1<<16-64, 1<<16, 1<<31-64, 1<<31, 1<<32-64, 1<<32, 1<<53, 1<<62)
	}
	p.Threshold = r.PickInt64(64, 128, 128, 1024, 0)
	np := r.PickInt(1, 1, 2, 3, 4)
	base := p.Offset + r.PickInt64(-70, -1, 0, 0, 0, 1, 63, 64, 65, 640)
	if base < 0 {
		base = 0
	}
	big := r.Chance(1, 40) // a run that crosses the DEFAULT threshold without the hook
	if strings.HasPrefix(tier, "thorough") {
		big = r.Chance(1, 20)
	}
	layout := r.PickStr("contig", "strided", "overlap")
	per := int(r.PickInt64(1, 3, 10, 40, 64, 65, 130, 300))
	if r.Chance(1, 5) {
		per = int(r.Range(1, 700))
	}
	if deep(tier) && r.Chance(1, 10) {
		per = int(r.Range(700, 6000)) // thorough tier: long histories
	}
	if big {
		p.Threshold = 0
		np = r.PickInt(1, 2)
		per = 66000/np + r.PickInt(0, 100, 700)
		base = p.Offset
		layout = r.PickStr("contig", "strided")
	}
	for i := 0; i < np; i++ {
		pr := TailProducer{Count: per, Stride: 1, Seed: r.Uint64()}
		pr.Order = r.PickStr("asc", "asc", "desc", "shuffle")
		switch layout {
		case "contig":
			pr.Start = base + int64(i*per)
		case "strided":
			pr.Start = base + int64(i)
			pr.Stride = int64(np)
		case "overlap":
			pr.Start = base + int64(i*per/2)
		}
		if big && pr.Order == "shuffle" {
			pr.Order = "desc"
		}
		p.Producers = append(p.Producers, pr)
	}
	if !big && r.Chance(1, 6) {
		// acknowledgements that arrive FAR out of order: a few ids more than 1024
		// words (the default reclaim threshold, also the initial capacity) ahead of
		// the window, so that the stored tail is long while the front is being
		// compacted and reclaimed
		ahead := r.PickInt64(1<<16-1, 1<<16, 1<<16+63, 1<<16+64, 70000, 1<<17, 200000, 1<<20-1, 1<<20, 1<<20+64, 1<<21)
		pr := TailProducer{Start: base + ahead, Count: 1 + r.Intn(4), Stride: r.PickInt64(1, 63, 64, 1000), Order: "asc", Seed: r.Uint64()}
		p.Producers = append(p.Producers, pr)
	}
	if !big && r.Chance(1, 5) {
		// stray acknowledgements from BELOW the initial offset ("Set(idx) below
		// the offset" — with an initial offset of 0 these are negative indexes):
		// ignored by a correct TailBitmap whatever the state
		below := r.PickInt64(1, 1, 5, 63, 64, 65, 127, 128, 200, 1<<31, 1<<40)
		pr := TailProducer{Start: p.Offset - below, Count: 1 + r.Intn(3), Stride: r.PickInt64(1, 31, 64), Order: r.PickStr("asc", "desc"), Seed: r.Uint64()}
		if pr.Start+int64(pr.Count-1)*pr.Stride >= p.Offset {
			pr.Count = 1
		}
		p.Producers = append(p.Producers, pr)
	}
	if r.Chance(1, 2) {
		p.DupDen = r.PickInt(2, 3, 10)
	}
	if r.Chance(1, 3) && !big {
		p.DropDen = r.PickInt(5, 20, 100)
	}
	if r.Chance(1, 2) {
		p.Window = r.PickInt(2, 8, 64, 500)
	}
	if r.Chance(1, 3) {
		p.HoldDen = r.PickInt(3, 10, 50)
	}
	if r.Chance(1, 2) {
		p.CompactEv = r.PickInt(1, 3, 17, 100)
	}
	p.Instances = r.PickInt(1, 1, 1, 2, 2, 3)
	if !big && r.Chance(1, 8) {
		p.Dirty = r.PickInt(1, 2, 3, 16, 17, 1024, 1100)
	}
	if big {
		p.Instances = 1
	}
	if !big && r.Chance(1, 500) {
		p.Far = 1<<31 + r.PickInt64(0, 5, 197, 64*3+1, 1<<20)
		p.Instances = 1
		p.Threshold = 0
	}
	p.Sched = genSchedule(r, len(p.Producers)+1)
	return p
}

type tailMsg struct {
	inst   int // target instance
	id     int64
	at     int64 // deliverable at tick
	seq    int64
	hold   bool // delay_past_compaction
	isDup  bool
	netOrd int
}

// tailHeap orders messages by (at, seq): a total order.
type tailHeap []tailMsg

func (h tailHeap) Len() int { return len(h) }
func (h tailHeap) Less(i, j int) bool {
	return h[i].at < h[j].at || (h[i].at == h[j].at && h[i].seq < h[j].seq)
}
func (h tailHeap) Swap(i, j int)       { h[i], h[j] = h[j], h[i] }
func (h *tailHeap) Push(x interface{}) { *h = append(*h, x.(tailMsg)) }
func (h *tailHeap) Pop() interface{} {
	old := *h
	n := len(old)
	x := old[n-1]
	*h = old[:n-1]
	return x
}

const allOnes = ^uint64(0)

func (Tail) Execute(pl engine.Plan, c *engine.RunCtx) *engine.Failure {
	p := pl.(*TailPlan)
	st := c.Stats
	c.MaxEvents = 2000000
	threshold := p.Threshold
	if threshold > 0 {
		if HooksBuilt {
			old := setReclaimThreshold(threshold)
			defer setReclaimThreshold(old)
			st.Inc("fault.configured.knob.reclaimThreshold")
		} else {
			threshold = 65536
		}
	} else {
		threshold = 65536
	}
	c.Tasks = len(p.Producers) + 1

	var tb *bitmap.TailBitmap
	var fail *engine.Failure
	guard := func(step int, what func() string, f func()) bool {
		defer func() {
			if r := recover(); r != nil {
				if he, ok := r.(engine.HarnessError); ok {
					panic(he)
				}
				fail = engine.Failf("C15.panic", step, "%s panicked: %v", what(), r)
			}
		}()
		f()
		return fail == nil
	}
	nInst := p.Instances
	if nInst < 1 {
		nInst = 1
	}
	type tailInst struct {
		tb                                          *bitmap.TailBitmap
		S                                           map[int64]struct{}
		firstHole, maxS, prevOffset, reclaimedModel int64
	}
	insts := make([]*tailInst, nInst)
	for k := range insts {
		var t0 *bitmap.TailBitmap
		if p.Dirty > 0 {
			buf := make([]uint64, p.Dirty)
			for i := range buf {
				buf[i] = 0xfeedface12345678 ^ uint64(i+k)*0x9e3779b97f4a7c15 | 1<<63
				if i%3 == 2 {
					buf[i] = allOnes
				}
			}
			t0 = &bitmap.TailBitmap{Offset: p.Offset, Words: buf[:0]}
			st.Inc("probe.C15.literal_over_a_used_buffer")
		} else if !guard(0, func() string { return "NewTailBitmap" }, func() { t0 = bitmap.NewTailBitmap(p.Offset) }) {
			return fail
		}
		insts[k] = &tailInst{tb: t0, S: map[int64]struct{}{}, firstHole: p.Offset, maxS: -1, prevOffset: t0.Offset, reclaimedModel: p.Offset}
	}
	// ---- reference model of the CURRENT instance (use(k) switches)
	o := p.Offset
	curInst := 0
	tb = insts[0].tb
	S := insts[0].S
	firstHole := o
	maxS := int64(-1)
	prevOffset := tb.Offset
	reclaimedModel := o
	use := func(k int) {
		if k == curInst {
			return
		}
		ci := insts[curInst]
		ci.firstHole, ci.maxS, ci.prevOffset, ci.reclaimedModel = firstHole, maxS, prevOffset, reclaimedModel
		curInst = k
		ni := insts[k]
		tb, S = ni.tb, ni.S
		firstHole, maxS, prevOffset, reclaimedModel = ni.firstHole, ni.maxS, ni.prevOffset, ni.reclaimedModel
	}
	member := func(j int64) uint64 {
		if j < o {
			return 1
		}
		if _, ok := S[j]; ok {
			return 1
		}
		return 0
	}
	end := func() int64 { return tb.Offset + 64*int64(len(tb.Words)) }
	probeOne := func(step int, j int64) *engine.Failure {
		if j < 0 || j >= end() {
			return nil // held back: outside the stored words
		}
		var g1, g uint64
		if !guard(step, func() string { return fmt.Sprintf("Get1/Get(%d)", j) }, func() { g1 = tb.Get1(j); g = tb.Get(j) }) {
			return fail
		}
		want := member(j)
		if g1 != want {
			return engine.Failf("C15.get1", step, "Get1(%d) = %d, model says %d (initial offset %d, Offset=%d, %d words)", j, g1, want, o, tb.Offset, len(tb.Words))
		}
		if g != want<<uint(j&63) {
			return engine.Failf("C15.get", step, "Get(%d) = %#x, want %#x (bit in place)", j, g, want<<uint(j&63))
		}
		return nil
	}
	probeSet := func(step int, id int64) []int64 {
		e := end()
		js := []int64{tb.Offset - 1, tb.Offset, tb.Offset + 63, tb.Offset + 64, id - 1, id, id + 1, e - 1, e - 64, o - 1, o, firstHole, firstHole - 1, maxS}
		for k := 0; k < 4; k++ {
			span := e - o + 130
			if span < 1 {
				span = 1
			}
			js = append(js, o-65+int64(engine.H(p.ProbeSeed, uint64(step), uint64(k))%uint64(span)))
		}
		return js
	}
	checkAfter := func(step int, whatf func() string, afterSet bool, id int64) *engine.Failure {
		what := ""
		defer func() { _ = what }()
		bad := func(inv, format string, a ...interface{}) *engine.Failure {
			return engine.Failf(inv, step, "after "+whatf()+": "+format, a...)
		}
		if tb.Offset%64 != 0 {
			return bad("C15.offset.aligned", "Offset=%d is not a multiple of 64", tb.Offset)
		}
		if tb.Offset < prevOffset {
			return bad("C15.offset.monotone", "Offset went from %d to %d", prevOffset, tb.Offset)
		}
		if tb.Offset > firstHole {
			return bad("C15.offset.pasthole", "Offset=%d moved past position %d which is still 0", tb.Offset, firstHole)
		}
		if afterSet && len(tb.Words) > 0 && tb.Words[0] == allOnes {
			return bad("C15.firstword", "the first stored word is all-ones (Offset=%d)", tb.Offset)
		}
		if maxS >= 0 && end() <= maxS {
			return bad("C15.enough", "stored words end at %d but index %d has been set", end(), maxS)
		}
		if tb.Offset-prevOffset >= 128 {
			st.Inc("probe.C15.compaction_dropped_ge2_words")
		}
		if tb.Offset-reclaimedModel >= threshold {
			reclaimedModel = tb.Offset
			st.Inc("probe.C15.reclaim_branch_executed")
		}
		prevOffset = tb.Offset
		for _, j := range probeSet(step, id) {
			if f := probeOne(step, j); f != nil {
				return f
			}
		}
		return nil
	}

	// ---- transport + tasks
	var inbox tailHeap
	var held []tailMsg
	tick := int64(0)
	seq := int64(0)
	producersLeft := len(p.Producers)
	sch := engine.NewSched(p.Sched)
	for pi := range p.Producers {
		pi := pi
		pr := p.Producers[pi]
		sch.Spawn(func(t *engine.Task) {
			ids := pr.ids()
			burst := 1
			if len(ids) > 2000 {
				burst = 64
			}
			for k, id := range ids {
				if fail != nil {
					break
				}
				h := engine.H(p.NetSeed, uint64(pi), uint64(k))
				tick++
				if p.DropDen > 0 && int(h%uint64(p.DropDen)) == 0 {
					st.Inc("fault.fired.net.drop")
					c.FaultsFired++
				} else {
					m := tailMsg{inst: pi % nInst, id: id, at: tick, seq: seq}
					seq++
					if p.Window > 0 {
						d := int64((h >> 16) % uint64(p.Window))
						if d > 0 {
							m.at += d
							st.Inc("fault.fired.net.reorder")
							c.FaultsFired++
						}
					}
					if p.HoldDen > 0 && int((h>>32)%uint64(p.HoldDen)) == 0 {
						m.hold = true
						held = append(held, m)
					} else {
						heap.Push(&inbox, m)
					}
					if p.DupDen > 0 && int((h>>48)%uint64(p.DupDen)) == 0 {
						d := m
						d.hold = false
						d.isDup = true
						d.at = tick + 1 + int64((h>>8)%97)
						d.seq = seq
						seq++
						heap.Push(&inbox, d)
						st.Inc("fault.fired.net.dup")
						c.FaultsFired++
					}
				}
				if (k+1)%burst == 0 {
					t.Yield()
				}
			}
			producersLeft--
		})
	}
	deliveries := 0
	sch.Spawn(func(t *engine.Task) {
		for fail == nil {
			// release held messages the window has moved past
			if len(held) > 0 {
				kept := held[:0]
				for _, m := range held {
					if insts[m.inst].tb.Offset > m.id || producersLeft == 0 {
						m.at = tick
						heap.Push(&inbox, m)
						if insts[m.inst].tb.Offset > m.id {
							st.Inc("fault.fired.net.delay_past_compaction")
							c.FaultsFired++
						}
					} else {
						kept = append(kept, m)
					}
				}
				held = kept
			}
			// pick the deliverable message with the smallest (at, seq)
			best := -1
			if len(inbox) > 0 && (inbox[0].at <= tick || producersLeft == 0) {
				best = 0
			}
			if best < 0 {
				if producersLeft == 0 && len(held) == 0 && len(inbox) == 0 {
					return
				}
				if producersLeft == 0 {
					continue
				}
				tick++ // time passes while the owner idles
				t.Yield()
				continue
			}
			m := heap.Pop(&inbox).(tailMsg)
			use(m.inst)
			deliveries++
			step := deliveries
			c.Status.SetStep(uint64(step), 1)
			if m.id < tb.Offset {
				st.Inc("probe.C15.set_below_offset")
			}
			if m.id < 0 {
				st.Inc("probe.C15.set_negative_index")
			}
			if _, dup := S[m.id]; dup {
				st.Inc("probe.C15.set_repeated")
			}
			if !guard(step, func() string { return fmt.Sprintf("Set(%d)", m.id) }, func() { tb.Set(m.id) }) {
				return
			}
			c.Status.SetStep(uint64(step), 0)
			c.LibCalls++
			st.Inc("op.set")
			S[m.id] = struct{}{}
			if m.id > maxS {
				maxS = m.id
			}
			for {
				if _, ok := S[firstHole]; !ok {
					break
				}
				firstHole++
			}
			c.Ev(len(p.Producers), "set", m.id, tb.Offset, int64(len(tb.Words)))
			if f := checkAfter(step, func() string { return fmt.Sprintf("Set(%d) [delivery %d]", m.id, deliveries) }, true, m.id); f != nil {
				fail = f
				return
			}
			if p.CompactEv > 0 && deliveries%p.CompactEv == 0 {
				js := probeSet(step, m.id)
				before := make([]uint64, len(js))
				for i, j := range js {
					if j >= 0 && j < end() {
						guard(step, func() string { return "Get1" }, func() { before[i] = tb.Get1(j) })
					}
				}
				e0 := end()
				if !guard(step, func() string { return "Compact" }, func() { tb.Compact() }) {
					return
				}
				c.LibCalls++
				st.Inc("op.compact")
				c.Ev(len(p.Producers), "compact", tb.Offset, int64(len(tb.Words)))
				if end() != e0 {
					fail = engine.Failf("C15.compact", step, "Compact moved the end of the stored words from %d to %d", e0, end())
					return
				}
				for i, j := range js {
					if j >= 0 && j < end() {
						var a uint64
						guard(step, func() string { return "Get1" }, func() { a = tb.Get1(j) })
						if fail != nil {
							return
						}
						if a != before[i] {
							fail = engine.Failf("C15.compact", step, "Compact changed Get1(%d) from %d to %d", j, before[i], a)
							return
						}
					}
				}
				if f := checkAfter(step, func() string { return "Compact" }, false, m.id); f != nil {
					fail = f
					return
				}
			}
			if nInst > 1 {
				// the other instances must be exactly as their own models say
				for k := 0; k < nInst; k++ {
					if k == m.inst {
						continue
					}
					use(k)
					for _, j := range []int64{firstHole - 1, firstHole, maxS, tb.Offset, end() - 1} {
						if f := probeOne(step, j); f != nil {
							f.Detail = fmt.Sprintf("instance %d after a Set on instance %d: %s", k, m.inst, f.Detail)
							fail = f
							return
						}
					}
				}
				use(m.inst)
				st.Inc("probe.C15.several_instances_alive")
			}
			st.State(engine.HashU64(0, uint64(m.inst), uint64(tb.Offset-o), uint64(len(tb.Words)), uint64(firstHole-o), uint64(len(S))))
			if deliveries%8 == 0 || len(inbox) == 0 {
				t.Yield()
			}
		}
	})
	if !sch.Run() {
		panic(engine.HarnessError{Msg: "tail-acks: deadlock"})
	}
	c.Switches = sch.NumSwitches()
	st.Interleaving(sch.InterleavingHash())
	if fail != nil {
		return fail
	}
	// ---- the far Set (a tail longer than 2^31 bits)
	if p.Far > 0 {
		use(0)
		far := o + p.Far
		step := deliveries + 1
		for _, id := range []int64{far, far - 1, far + 64, far} {
			c.Status.SetStep(uint64(step), 1)
			if !guard(step, func() string { return fmt.Sprintf("Set(%d)", id) }, func() { tb.Set(id) }) {
				return fail
			}
			c.Status.SetStep(uint64(step), 0)
			c.LibCalls++
			S[id] = struct{}{}
			if id > maxS {
				maxS = id
			}
			c.Ev(len(p.Producers), "set.far", id, tb.Offset, int64(len(tb.Words)))
			if f := checkAfter(step, func() string { return fmt.Sprintf("Set(%d) [far]", id) }, true, id); f != nil {
				return f
			}
			for _, j := range []int64{id - 65, id - 64, id - 1, id, id + 1, far - 2, far + 63, far + 65, o + 1<<31 - 1, o + 1<<31, o + 1<<30} {
				if f := probeOne(step, j); f != nil {
					return f
				}
			}
		}
		st.Inc("probe.C15.tail_longer_than_2^31_bits")
	}
	// ---- end of run: full sweep (bounded when the tail is huge: the first 2^17
	// positions, the neighbourhood of every bit ever set, the last 2^12)
	lo := o - 128
	if lo < 0 {
		lo = 0
	}
	for k := 0; k < nInst; k++ {
		use(k)
		sweep := func(a, b int64) *engine.Failure {
			for j := a; j < b; j++ {
				if f := probeOne(deliveries+1, j); f != nil {
					if nInst > 1 {
						f.Detail = fmt.Sprintf("instance %d: %s", k, f.Detail)
					}
					return f
				}
			}
			return nil
		}
		if end()-lo <= 1<<21 {
			if f := sweep(lo, end()); f != nil {
				return f
			}
			continue
		}
		if f := sweep(lo, lo+1<<17); f != nil {
			return f
		}
		ids := make([]int64, 0, len(S))
		for id := range S {
			ids = append(ids, id)
		}
		sort.Slice(ids, func(i, j int) bool { return ids[i] < ids[j] })
		for _, id := range ids {
			if id >= lo+1<<17 {
				if f := sweep(id-70, id+70); f != nil {
					return f
				}
			}
		}
		if f := sweep(end()-1<<12, end()); f != nil {
			return f
		}
	}
	if firstHole-o >= 65536 && p.Threshold == 0 {
		st.Inc("probe.C15.crossed_default_threshold_without_hook")
	}
	if len(S) > 0 && firstHole < maxS {
		st.Inc("probe.C15.hole_pins_window_at_end")
	}
	return nil
}

func (Tail) Shrink(pl engine.Plan) []engine.Plan {
	p := pl.(*TailPlan)
	var out []engine.Plan
	clone := func() *TailPlan {
		b, _ := json.Marshal(p)
		var q TailPlan
		_ = json.Unmarshal(b, &q)
		return &q
	}
	if len(p.Producers) > 1 {
		for i := range p.Producers {
			q := clone()
			q.Producers = append(q.Producers[:i], q.Producers[i+1:]...)
			out = append(out, q)
		}
	}
	if p.Sched.Mode != "seq" {
		q := clone()
		q.Sched = engine.Schedule{Mode: "seq"}
		out = append(out, q)
	}
	for _, f := range []func(q *TailPlan) bool{
		func(q *TailPlan) bool { ok := q.Instances > 1; q.Instances = 1; return ok },
		func(q *TailPlan) bool { ok := q.Far > 0; q.Far = 0; return ok },
		func(q *TailPlan) bool { ok := q.DupDen != 0; q.DupDen = 0; return ok },
		func(q *TailPlan) bool { ok := q.DropDen != 0; q.DropDen = 0; return ok },
		func(q *TailPlan) bool { ok := q.Window != 0; q.Window = 0; return ok },
		func(q *TailPlan) bool { ok := q.HoldDen != 0; q.HoldDen = 0; return ok },
		func(q *TailPlan) bool { ok := q.CompactEv != 0; q.CompactEv = 0; return ok },
		func(q *TailPlan) bool {
			ok := q.Offset != 0
			for i := range q.Producers {
				q.Producers[i].Start -= q.Offset
				if q.Producers[i].Start < 0 {
					ok = false
				}
			}
			q.Offset = 0
			return ok
		},
	} {
		q := clone()
		if f(q) {
			out = append(out, q)
		}
	}
	for i, pr := range p.Producers {
		if pr.Count > 1 {
			for _, nc := range []int{pr.Count / 2, pr.Count - 1} {
				q := clone()
				q.Producers[i].Count = nc
				out = append(out, q)
			}
			// drop the first half instead
			q := clone()
			q.Producers[i].Start += int64(pr.Count/2) * pr.Stride
			q.Producers[i].Count = pr.Count - pr.Count/2
			out = append(out, q)
		}
		if pr.Order != "asc" {
			q := clone()
			q.Producers[i].Order = "asc"
			out = append(out, q)
		}
	}
	// stay inside the statement's domain (and the harness's memory): ids are
	// non-negative and within 200000 positions of the initial offset
	valid := out[:0]
	for _, q := range out {
		tp := q.(*TailPlan)
		ok := tp.Offset%64 == 0 && tp.Offset >= 0
		for _, pr := range tp.Producers {
			last := pr.Start + int64(pr.Count)*pr.Stride
			if pr.Start < 0 || last-tp.Offset > 200000 || pr.Stride < 1 || pr.Count < 0 {
				ok = false
			}
		}
		if ok {
			valid = append(valid, q)
		}
	}
	return valid
}

var _ = sort.Ints
