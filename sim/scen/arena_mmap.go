//go:build verifyield

package scen

import (
	"runtime/debug"
	"syscall"
	"unsafe"

	"verifsim/engine"
)

// arena (mmap flavour): shared inputs live in a private anonymous mapping that
// is made READ-ONLY once the world is built. Any write by the library to any
// argument — even of the same value — then faults, and with
// debug.SetPanicOnFault the fault is a recoverable panic carrying the address
// (DESIGN §4.6 "Y build", oracle C19.write).
type arena struct {
	// fence: a second mapping of nFence slots of two pages each: a data page
	// followed by a guard page that is made inaccessible. An object placed so
	// that it ENDS at the end of its data page cannot be over-read (or
	// over-written) by even one byte without faulting.
	fence       []byte
	fenceUsed   int
	nbytes      int
	fencedBytes int
	br          byteRanges
	mem         []byte
	off         int
	base        uintptr
	// twin: see arena_common.go (a twin has no fence: its job is different
	// surroundings, not guard pages)
	twin bool
	n    int
}

// exact reports whether the next twin slice gets cap == len.
func (a *arena) exact() bool {
	a.n++
	return a.twin && a.n%2 == 0
}

const ArenaReadOnly = true

const arenaSize = 8 << 20

const (
	pageSz = 4096
	nFence = 192
)

func newArena(twin bool) *arena {
	mem, err := syscall.Mmap(-1, 0, arenaSize, syscall.PROT_READ|syscall.PROT_WRITE, syscall.MAP_PRIVATE|syscall.MAP_ANON)
	if err != nil {
		panic(engine.HarnessError{Msg: "mmap: " + err.Error()})
	}
	if twin {
		return &arena{mem: mem, base: uintptr(unsafe.Pointer(&mem[0])), twin: true}
	}
	fence, err := syscall.Mmap(-1, 0, nFence*2*pageSz, syscall.PROT_READ|syscall.PROT_WRITE, syscall.MAP_PRIVATE|syscall.MAP_ANON)
	if err != nil {
		panic(engine.HarnessError{Msg: "mmap(fence): " + err.Error()})
	}
	return &arena{mem: mem, base: uintptr(unsafe.Pointer(&mem[0])), fence: fence}
}

// fenced returns a copy of x that ends exactly at a guard page (cap == len), or
// nil if no slot is left or x does not fit.
func (a *arena) fenced(x []byte) []byte {
	if a.twin || a.fenceUsed >= nFence || len(x) == 0 || len(x) > pageSz {
		return nil
	}
	end := a.fenceUsed*2*pageSz + pageSz
	a.fenceUsed++
	out := a.fence[end-len(x) : end : end]
	copy(out, x)
	return out
}

// inGuard reports whether addr lies in one of the guard pages.
func (a *arena) inGuard(addr uintptr) bool {
	if len(a.fence) == 0 {
		return false
	}
	fb := uintptr(unsafe.Pointer(&a.fence[0]))
	if addr < fb || addr >= fb+uintptr(len(a.fence)) {
		return false
	}
	return ((addr-fb)/pageSz)%2 == 1
}

func (a *arena) alloc(n, align int) unsafe.Pointer {
	a.off = (a.off + align - 1) &^ (align - 1)
	if a.off+n+64 > len(a.mem) {
		panic(engine.HarnessError{Msg: "arena exhausted"})
	}
	p := unsafe.Pointer(&a.mem[a.off])
	a.off += n
	// leave a guard gap so that a one-past-the-end write lands in the arena too
	a.off += 16
	return p
}

// Every slice has spareCap elements of spare capacity behind its length (see
// arena_heap.go): an append within capacity writes into the read-only mapping
// and faults.
func (a *arena) u64s(x []uint64) []uint64 {
	n := len(x) + spareCap
	out := unsafe.Slice((*uint64)(a.alloc(8*n, 8)), n)
	copy(out, x)
	for i := len(x); i < n; i++ {
		out[i] = sentinel64
		if a.twin {
			out[i] = twin64
		}
	}
	if a.exact() {
		return out[:len(x):len(x)]
	}
	return out[:len(x)]
}

func (a *arena) i32s(x []int32) []int32 {
	n := len(x) + spareCap
	out := unsafe.Slice((*int32)(a.alloc(4*n, 4)), n)
	copy(out, x)
	for i := len(x); i < n; i++ {
		out[i] = sentinel32
		if a.twin {
			out[i] = twin32
		}
	}
	if a.exact() {
		return out[:len(x):len(x)]
	}
	return out[:len(x)]
}

func (a *arena) bytes(x []byte) []byte {
	a.nbytes++
	if a.nbytes%5 == 2 && a.fencedBytes < 48 { // most guard slots are kept for the keys (strings)
		if fb := a.fenced(x); fb != nil {
			a.fencedBytes++
			a.br.add(uintptr(unsafe.Pointer(&fb[0])), uintptr(len(fb)))
			return fb // ends at a guard page, no spare capacity
		}
	}
	n := len(x) + spareCap
	out := unsafe.Slice((*byte)(a.alloc(n, 1)), n)
	copy(out, x)
	for i := len(x); i < n; i++ {
		out[i] = sentinel8
		if a.twin {
			out[i] = twin8
		}
	}
	a.br.add(uintptr(unsafe.Pointer(&out[0])), uintptr(len(x)))
	if a.exact() {
		return out[:len(x):len(x)]
	}
	return out[:len(x)]
}

func (a *arena) strs(x []string) []string {
	hdrs := unsafe.Slice((*string)(a.alloc(16*len(x)+16, 8)), len(x))
	for i, s := range x {
		if i%3 == 1 {
			if fb := a.fenced([]byte(s)); fb != nil {
				hdrs[i] = unsafe.String(&fb[0], len(fb)) // this key ends at a guard page
				continue
			}
		}
		nr := len(a.br.lo)
		b := a.bytes([]byte(s))
		a.br.lo, a.br.hi = a.br.lo[:nr], a.br.hi[:nr] // string memory is not a []byte input
		if len(b) == 0 {
			hdrs[i] = ""
			continue
		}
		hdrs[i] = unsafe.String(&b[0], len(b))
		_ = b[:cap(b)]
	}
	return hdrs
}

func (a *arena) seal() {
	if err := syscall.Mprotect(a.mem, syscall.PROT_READ); err != nil {
		panic(engine.HarnessError{Msg: "mprotect: " + err.Error()})
	}
	if a.fence == nil {
		return
	}
	if err := syscall.Mprotect(a.fence, syscall.PROT_READ); err != nil {
		panic(engine.HarnessError{Msg: "mprotect(fence): " + err.Error()})
	}
	for i := 0; i < a.fenceUsed; i++ {
		g := a.fence[(2*i+1)*pageSz : (2*i+2)*pageSz]
		if err := syscall.Mprotect(g, syscall.PROT_NONE); err != nil {
			panic(engine.HarnessError{Msg: "mprotect(guard): " + err.Error()})
		}
	}
}

func (a *arena) free() {
	if a.mem != nil {
		_ = syscall.Munmap(a.mem)
		a.mem = nil
	}
	if a.fence != nil {
		_ = syscall.Munmap(a.fence)
		a.fence = nil
	}
}

func (a *arena) contains(addr uintptr) bool {
	if addr >= a.base && addr < a.base+uintptr(arenaSize) {
		return true
	}
	if len(a.fence) > 0 {
		fb := uintptr(unsafe.Pointer(&a.fence[0]))
		return addr >= fb && addr < fb+uintptr(len(a.fence))
	}
	return false
}

// enablePanicOnFault must be called on every goroutine that calls the library.
func enablePanicOnFault() { debug.SetPanicOnFault(true) }

// faultAddr extracts the faulting address from a recovered runtime fault.
func faultAddr(r interface{}) (uintptr, bool) {
	if e, ok := r.(interface{ Addr() uintptr }); ok {
		return e.Addr(), true
	}
	return 0, false
}

func (a *arena) baseAddr() uintptr { return a.base }
