//go:build verifyield

package scen

import (
	"runtime/debug"
	"syscall"
	"unsafe"

	"verifsim/engine"
)

// arena (mmap flavour): shared inputs live in a private anonymous mapping that
// is made READ-ONLY once the world is built. Any write by the library to any
// argument — even of the same value — then faults, and with
// debug.SetPanicOnFault the fault is a recoverable panic carrying the address
// (DESIGN §4.6 "Y build", oracle C19.write).
type arena struct {
	br   byteRanges
	mem  []byte
	off  int
	base uintptr
}

const ArenaReadOnly = true

const arenaSize = 8 << 20

func newArena() *arena {
	mem, err := syscall.Mmap(-1, 0, arenaSize, syscall.PROT_READ|syscall.PROT_WRITE, syscall.MAP_PRIVATE|syscall.MAP_ANON)
	if err != nil {
		panic(engine.HarnessError{Msg: "mmap: " + err.Error()})
	}
	return &arena{mem: mem, base: uintptr(unsafe.Pointer(&mem[0]))}
}

func (a *arena) alloc(n, align int) unsafe.Pointer {
	a.off = (a.off + align - 1) &^ (align - 1)
	if a.off+n+64 > len(a.mem) {
		panic(engine.HarnessError{Msg: "arena exhausted"})
	}
	p := unsafe.Pointer(&a.mem[a.off])
	a.off += n
	// leave a guard gap so that a one-past-the-end write lands in the arena too
	a.off += 16
	return p
}

// Every slice has spareCap elements of spare capacity behind its length (see
// arena_heap.go): an append within capacity writes into the read-only mapping
// and faults.
func (a *arena) u64s(x []uint64) []uint64 {
	n := len(x) + spareCap
	out := unsafe.Slice((*uint64)(a.alloc(8*n, 8)), n)
	copy(out, x)
	for i := len(x); i < n; i++ {
		out[i] = sentinel64
	}
	return out[:len(x)]
}

func (a *arena) i32s(x []int32) []int32 {
	n := len(x) + spareCap
	out := unsafe.Slice((*int32)(a.alloc(4*n, 4)), n)
	copy(out, x)
	for i := len(x); i < n; i++ {
		out[i] = sentinel32
	}
	return out[:len(x)]
}

func (a *arena) bytes(x []byte) []byte {
	n := len(x) + spareCap
	out := unsafe.Slice((*byte)(a.alloc(n, 1)), n)
	copy(out, x)
	for i := len(x); i < n; i++ {
		out[i] = sentinel8
	}
	a.br.add(uintptr(unsafe.Pointer(&out[0])), uintptr(len(x)))
	return out[:len(x)]
}

func (a *arena) strs(x []string) []string {
	hdrs := unsafe.Slice((*string)(a.alloc(16*len(x)+16, 8)), len(x))
	for i, s := range x {
		nr := len(a.br.lo)
		b := a.bytes([]byte(s))
		a.br.lo, a.br.hi = a.br.lo[:nr], a.br.hi[:nr] // string memory is not a []byte input
		if len(b) == 0 {
			hdrs[i] = ""
			continue
		}
		hdrs[i] = unsafe.String(&b[0], len(b))
		_ = b[:cap(b)]
	}
	return hdrs
}

func (a *arena) seal() {
	if err := syscall.Mprotect(a.mem, syscall.PROT_READ); err != nil {
		panic(engine.HarnessError{Msg: "mprotect: " + err.Error()})
	}
}

func (a *arena) free() {
	if a.mem != nil {
		_ = syscall.Munmap(a.mem)
		a.mem = nil
	}
}

func (a *arena) contains(addr uintptr) bool {
	return addr >= a.base && addr < a.base+uintptr(arenaSize)
}

// enablePanicOnFault must be called on every goroutine that calls the library.
func enablePanicOnFault() { debug.SetPanicOnFault(true) }

// faultAddr extracts the faulting address from a recovered runtime fault.
func faultAddr(r interface{}) (uintptr, bool) {
	if e, ok := r.(interface{ Addr() uintptr }); ok {
		return e.Addr(), true
	}
	return 0, false
}

func (a *arena) baseAddr() uintptr { return a.base }
