package scen

import (
	"bytes"
	"fmt"
	"runtime/debug"
	"syscall"

	"verifsim/engine"
)

// ---------------------------------------------------------------------------
// C07, family "giant": a frame whose body is larger than 1 GiB, written to a
// writer that fails after k bytes — in particular after one or more whole
// GiB (what a Marshal that forwards the body in pieces of 2^30 bytes, the
// largest a single write(2) takes, would have written in earlier pieces).
// "If the destination writer fails after accepting k bytes, Marshal returns
// that writer's error and the count k" has no size limit.
//
// Nothing of that size is ever stored by the harness: the message hands out a
// slice of a lazily-zeroed read-only mapping as its encoding, and the writer
// compares what it is offered with what the frame must be (the 32 header bytes
// the header layout dictates, then zeros) as it goes.
// ---------------------------------------------------------------------------

type GiantSpec struct {
	BodyLen int64   `json:"body_len"`
	Budgets []int64 `json:"budgets"` // bytes accepted before the writer fails
	Eager   bool    `json:"eager,omitempty"`
}

const giantMax = int64(1)<<30 + 8<<20

var giantZero []byte

func giantZeros(n int64) []byte {
	if giantZero == nil {
		m, err := syscall.Mmap(-1, 0, int(giantMax), syscall.PROT_READ, syscall.MAP_PRIVATE|syscall.MAP_ANON)
		if err != nil {
			panic(engine.HarnessError{Msg: "mmap(giant): " + err.Error()})
		}
		giantZero = m
	}
	if n > giantMax {
		panic(engine.HarnessError{Msg: "giant body too large"})
	}
	return giantZero[:n:n]
}

// giantMsg is a legacy message whose encoding is n zero bytes.
type giantMsg struct{ n int64 }

func (g *giantMsg) Marshal() ([]byte, error) { return giantZeros(g.n), nil }
func (g *giantMsg) Unmarshal(b []byte) error { g.n = int64(len(b)); return nil }
func (g *giantMsg) Reset()                   { *g = giantMsg{} }
func (g *giantMsg) String() string           { return fmt.Sprintf("giant(%d)", g.n) }
func (g *giantMsg) ProtoMessage()            {}

// giantWriter accepts Budget bytes, checking each against the expected frame,
// then fails (a partial count with the error; Eager: a write that ends exactly
// at the budget is accepted whole AND gets the error). It stores nothing.
type giantWriter struct {
	hdr    []byte
	budget int64
	eager  bool
	err    error

	total  int64
	failed bool
	after  int64 // bytes offered after the failure
	bad    string
}

var zeroBlock = make([]byte, 1<<16)

func (w *giantWriter) check(p []byte) {
	pos := w.total
	for len(p) > 0 && w.bad == "" {
		if pos < 32 {
			if p[0] != w.hdr[pos] {
				w.bad = fmt.Sprintf("byte %d of the frame is %#x, the header has %#x there", pos, p[0], w.hdr[pos])
			}
			p, pos = p[1:], pos+1
			continue
		}
		n := len(p)
		if n > len(zeroBlock) {
			n = len(zeroBlock)
		}
		if !bytes.Equal(p[:n], zeroBlock[:n]) {
			w.bad = fmt.Sprintf("a body byte in [%d,%d) of the frame is not what the message encodes to", pos, pos+int64(n))
		}
		p, pos = p[n:], pos+int64(n)
	}
}

func (w *giantWriter) Write(p []byte) (int, error) {
	if len(p) == 0 {
		return 0, nil
	}
	if w.failed {
		w.after += int64(len(p))
		return 0, w.err
	}
	accept := len(p)
	var err error
	if room := w.budget - w.total; int64(accept) > room {
		accept, err, w.failed = int(room), w.err, true
	} else if w.eager && int64(accept) == room {
		err, w.failed = w.err, true
	}
	w.check(p[:accept])
	w.total += int64(accept)
	return accept, err
}

func genGiant(r *engine.PRNG, p *FaultsPlan) *FaultsPlan {
	p.Family = "giant"
	g := &GiantSpec{BodyLen: int64(1)<<30 + r.PickInt64(1, 4097, 1<<20+5)}
	frame := 32 + g.BodyLen
	g.Budgets = []int64{r.PickInt64(32+1<<30, 32+1<<30+1, 32+1<<30-1, frame-1, 1<<30, r.Range(1<<30, frame-1))}
	g.Eager = r.Chance(1, 3)
	p.Giant = g
	p.ErrKind = r.PickStr(errKinds...)
	return p
}

func execGiant(p *FaultsPlan, c *engine.RunCtx) *engine.Failure {
	st := c.Stats
	g := p.Giant
	if g == nil {
		panic(engine.HarnessError{Msg: "giant family without a giant spec"})
	}
	validateLayout()
	defer debug.FreeOSMemory() // the encoder's copy of the body must not pile up over runs
	werr := errOfKind(p.ErrKind)
	msg := &giantMsg{n: g.BodyLen}
	for i, k := range g.Budgets {
		step := i + 1
		if k < 0 || k >= 32+g.BodyLen {
			continue
		}
		w := &giantWriter{hdr: craftHeader("1.0.0", 32, uint64(g.BodyLen)), budget: k, eager: g.Eager, err: werr}
		st.Inc("fault.configured.wr.fail_giant")
		st.Inc("fault_points")
		c.Status.SetStep(uint64(step), 1)
		n, err, pan := callMarshal(w, msg)
		c.Status.SetStep(uint64(step), 0)
		c.LibCalls++
		c.Ev(0, "marshal.giant", k, n, w.total)
		what := fmt.Sprintf("frame of %d bytes (body %d), writer failing after %d bytes (eager=%v)", 32+g.BodyLen, g.BodyLen, k, g.Eager)
		if pan != nil {
			return engine.Failf("C07.wfail.panic", step, "%s: Marshal panicked: %v", what, pan)
		}
		if !w.failed {
			return engine.Failf("C07.wfail.nofault", step, "%s: only %d bytes were offered to the writer, which never failed; Marshal gave (n=%d, err=%v)", what, w.total, n, err)
		}
		st.Inc("fault.fired.wr.fail_giant")
		c.FaultsFired++
		if err == nil {
			return engine.Failf("C07.wfail.swallowed", step, "%s: Marshal returned nil error (n=%d)", what, n)
		}
		if cause(err) != werr && !chainHas(err, werr) {
			return engine.Failf("C07.wfail.error", step, "%s: Marshal must return the writer's error (%v), got %v", what, werr, err)
		}
		if w.after != 0 {
			return engine.Failf("C07.wfail.after", step, "%s: Marshal kept writing after the writer failed: %d more bytes were offered", what, w.after)
		}
		if n != k || w.total != k {
			return engine.Failf("C07.wfail.count", step, "%s: Marshal returned n=%d, the writer accepted %d", what, n, w.total)
		}
		if w.bad != "" {
			return engine.Failf("C07.wfail.prefix", step, "%s: emitted bytes are not the first %d bytes of the frame: %s", what, k, w.bad)
		}
		st.Inc("probe.C07.wfail_beyond_1GiB")
	}
	return nil
}
