package scen

import (
	"encoding/json"
	"fmt"
	"strings"
	"unsafe"

	"github.com/openacid/low/bitmap"
	"github.com/openacid/low/bitstr"
	"github.com/openacid/low/bitword"
	"github.com/openacid/low/bmtree"
	"github.com/openacid/low/sigbits"

	"verifsim/engine"
)

// ---------------------------------------------------------------------------
// C19 — scenario "readers" (DESIGN §4.6), two flavours sharing this file:
//
//   readers-r  (-race build): tasks are serialised by the scheduler but handed
//              off through raw pipe syscalls, so ThreadSanitizer sees no
//              happens-before edge between them and reports every conflicting
//              access the plan makes two tasks perform. Yields at call
//              boundaries. Inputs on the Go heap.
//   readers-y  (statement-yield build): the five packages are rewritten in a
//              scratch copy with a yield before every statement; the schedule
//              may switch tasks INSIDE a library call. Inputs live in a
//              read-only mapping. Value-level oracles.
//
// Three phases per run: (1) sequential reference on the main goroutine,
// (2) simulated concurrent execution, (3) audit.
// ---------------------------------------------------------------------------

type ReadersPlan struct {
	World   WorldSpec       `json:"world"`
	Tasks   [][]ROp         `json:"tasks"`
	Sched   engine.Schedule `json:"sched"`
	Poisons []uint64        `json:"poisons"`
	// RefAfter: run the simulated concurrent phase FIRST and the sequential
	// reference afterwards, so that whatever a function initialises lazily on
	// first use is first touched by concurrent tasks (matters in a cold process).
	RefAfter bool `json:"ref_after,omitempty"`
	// Pad perturbs the process's heap layout and the main goroutine's event
	// count before the world is built. The race detector keeps a bounded,
	// address- and history-dependent record of past accesses, so whether it
	// still remembers the conflicting access is layout-dependent; the pad makes
	// the layout part of the plan (explicit, replayable).
	Pad int `json:"pad,omitempty"`
	// YieldStride > 1 (statement-yield flavour): only every YieldStride-th
	// statement is a scheduling point. Used for the huge trees, where a
	// scheduling decision before every one of some 10^8 statements is
	// unaffordable; the interleavings explored are coarser, still exact and
	// replayable.
	YieldStride int `json:"yield_stride,omitempty"`
	// GCPoints > 0 (statement-yield flavour): one more task does nothing but
	// force a garbage collection, and let pending finalizers run, at this many
	// of its scheduling turns — "a collection happens HERE" as a planned event
	// between (and, with statement-level yields, inside) the readers' calls.
	// An object a call no longer refers to may be finalised while the call is
	// still working on memory it got from it.
	GCPoints int `json:"gc_points,omitempty"`
}

type ROp struct {
	Fn  string `json:"fn"`
	Obj int    `json:"obj"`
	A   int64  `json:"a,omitempty"`
	B   int64  `json:"b,omitempty"`
	C   int64  `json:"c,omitempty"`
}

// rOutcome is what one call returned. Result slices are kept AS RETURNED
// (not copied) so that C19.retain can tell whether a later call overwrote them.
type rOutcome struct {
	ints  []int64
	words []uint64
	i32s  []int32
	bytes []byte
	strs  []string
	bss   [][]byte
	pan   interface{}
	fault uintptr // write fault inside the read-only arena (0: none)
	guard bool    // … the fault hit a guard page right behind an argument (over-read / over-write)
	alias bool    // a string result shares memory with a []byte input
	hash  uint64  // content hash at return time
}

//go:norace
func (o *rOutcome) contentHash() uint64 {
	h := uint64(0x9e3779b97f4a7c15)
	for _, v := range o.ints {
		h = engine.HashU64(h, uint64(v))
	}
	h = engine.HashU64(h, uint64(len(o.ints)), 1)
	for _, v := range o.words {
		h = engine.HashU64(h, v)
	}
	h = engine.HashU64(h, uint64(len(o.words)), 2)
	for _, v := range o.i32s {
		h = engine.HashU64(h, uint64(uint32(v)))
	}
	h = engine.HashU64(h, uint64(len(o.i32s)), 3)
	h = engine.HashBytes(h, o.bytes)
	h = engine.HashU64(h, uint64(len(o.bytes)), 4)
	for _, s := range o.strs {
		for i := 0; i < len(s); i++ {
			h = engine.HashU64(h, uint64(s[i]))
		}
		h = engine.HashU64(h, uint64(len(s)), 5)
	}
	for _, b := range o.bss {
		h = engine.HashBytes(h, b)
		h = engine.HashU64(h, uint64(len(b)), 6)
	}
	if o.pan != nil {
		h = engine.HashU64(h, 7777)
		switch e := o.pan.(type) {
		case error:
			s := e.Error()
			for i := 0; i < len(s); i++ {
				h = engine.HashU64(h, uint64(s[i]))
			}
		case string:
			for i := 0; i < len(e); i++ {
				h = engine.HashU64(h, uint64(e[i]))
			}
		}
	}
	return h
}

func (o *rOutcome) describe() string {
	if o.pan != nil {
		return fmt.Sprintf("panic(%v)", o.pan)
	}
	s := ""
	if o.ints != nil {
		s += fmt.Sprintf("ints=%v ", clipI64(o.ints))
	}
	if o.words != nil {
		s += fmt.Sprintf("words(%d)=%x ", len(o.words), clipU64(o.words))
	}
	if o.i32s != nil {
		s += fmt.Sprintf("i32s(%d)=%v ", len(o.i32s), clip32(o.i32s))
	}
	if o.bytes != nil {
		s += fmt.Sprintf("bytes=%x ", o.bytes)
	}
	if o.strs != nil {
		s += fmt.Sprintf("strs=%q ", o.strs)
	}
	if o.bss != nil {
		s += fmt.Sprintf("bss=%x ", o.bss)
	}
	return s
}

func clipI64(a []int64) []int64 {
	if len(a) > 16 {
		return a[:16]
	}
	return a
}
func clipU64(a []uint64) []uint64 {
	if len(a) > 8 {
		return a[:8]
	}
	return a
}

// Indirect call shapes (function values defeat inlining and change the frame
// layout the callee sees).
var (
	fvStrCmpUpto = bitstr.StrCmpUpto
	fvCmpUpto    = bitstr.CmpUpto
	fvCmp        = bitstr.Cmp
	fvRank64     = bitmap.Rank64
	fvRank128    = bitmap.Rank128
	fvSelect32   = bitmap.Select32
	fvNextOne    = bitmap.NextOne
	fvFromStr32  = bitmap.FromStr32
	fvPathOf     = bmtree.PathOf
)

var poisonSink uint64

// poisonStack fills 32 KiB of stack below the caller's frame with a pattern, so
// that a callee which reads memory that is not one of its arguments
// (uninitialised stack) sees a value the plan chose.
//
//go:noinline
//go:norace
func poisonStack(p uint64) {
	var a [4096]uint64
	for i := range a {
		a[i] = p
	}
	poisonSink += a[int(p&4095)]
}

func mod(a int64, n int64) int64 {
	if n <= 0 {
		return 0
	}
	a %= n
	if a < 0 {
		a += n
	}
	return a
}

// readerFns is the operation catalogue; fmtUsing marks functions that go through
// fmt (sync.Pool would add happens-before edges between tasks in the R build).
var readerFns = []string{
	"bitmap.Rank64", "bitmap.Rank128", "bitmap.Select32", "bitmap.Select32R64", "bitmap.NextOne", "bitmap.PrevOne",
	"bitmap.Slice", "bitmap.ToArray", "bitmap.Get", "bitmap.Get1", "bitmap.Getw", "bitmap.SafeGet", "bitmap.FromStr32",
	"bitmap.IndexRank64", "bitmap.IndexRank128", "bitmap.IndexSelect32", "bitmap.IndexSelect32R64", "bitmap.Join", "bitmap.Of",
	"bitmap.OfMany", "bitmap.TailGet", "bitmap.Fmt", "bitmap.OfUnsorted", "bitmap.Select32OutOfRange",
	"bmtree.PathToIndex", "bmtree.PathToIndexLoose", "bmtree.IndexToPath", "bmtree.AllPaths", "bmtree.Decode",
	"bmtree.PathOf", "bmtree.PathsOf", "bmtree.PathLen", "bmtree.PathStr",
	"bitstr.New", "bitstr.Len", "bitstr.Cmp", "bitstr.CmpUpto", "bitstr.StrCmpUpto",
	"bitword.FromStr", "bitword.ToStr", "bitword.Get", "bitword.FirstDiff", "bitword.FromStrs", "bitword.ToStrs",
	"sigbits.FirstDiffBits", "sigbits.New", "sigbits.CountPrefixes", "sigbits.ShardByPrefix",
}

// hugeFns run on the world's huge key list only (when it has one).
var hugeFns = []string{"sigbits.HugeFirstDiffBits", "sigbits.HugeShardByPrefix", "sigbits.HugeNew"}

// hugeBitmapFns run on the world's huge bitmap only (2^16 words and more: the
// sizes at which a whole-bitmap function might split its work).
var hugeBitmapFns = []string{"bitmap.HugeToArray", "bitmap.HugeToArray", "bitmap.HugeIndexRank64", "bitmap.HugeIndexRank128", "bitmap.HugeIndexSelect32", "bitmap.HugeIndexSelect32R64", "bitmap.HugeSlice"}

var fmtUsing = map[string]bool{"bmtree.PathStr": true, "bitmap.Fmt": true}

// refusing marks operations whose DOCUMENTED outcome is a panic (Select32 with
// an i its select index does not cover). A refusal is an outcome like any
// other: it must depend only on the arguments, the value recovered must stay
// what it was, and two tasks being refused at once must not touch common
// memory. The library builds its message with fmt, so in the R build these
// operations stay out of the wide "cold" runs (fmt's pool would add
// happens-before edges between the tasks of exactly the runs that look for a
// racy first use).
var refusing = map[string]bool{"bitmap.Select32OutOfRange": true}

// execOp performs one catalogue operation on the shared world. It never
// touches harness state shared between tasks and uses neither fmt nor any
// synchronisation (so that it adds no happens-before edge in the R build).
func execOp(w *world, op ROp, viaValue bool, poison uint64) (out rOutcome) {
	defer func() {
		if r := recover(); r != nil {
			if he, ok := r.(engine.HarnessError); ok {
				panic(he)
			}
			out = rOutcome{pan: r}
			if addr, ok := faultAddr(r); ok && w.arena.contains(addr) {
				out.fault = addr
				out.guard = w.arena.inGuard(addr)
			}
			out.hash = out.contentHash()
		}
	}()
	poisonStack(poison)
	out = execOpInner(w, op, viaValue, poison)
	out.hash = out.contentHash()
	for _, s := range out.strs {
		if len(s) > 0 && w.arena.br.contains(uintptr(unsafe.Pointer(unsafe.StringData(s)))) {
			out.alias = true
		}
	}
	return
}

func execOpInner(w *world, op ROp, viaValue bool, poison uint64) (out rOutcome) {
	pkg := op.Fn[:6]
	switch pkg {
	case "bitmap":
		return execBitmap(w, op, viaValue)
	case "bmtree":
		return execBmtree(w, op, viaValue)
	case "bitstr":
		return execBitstr(w, op, viaValue, poison)
	case "bitwor":
		return execBitword(w, op)
	case "sigbit":
		return execSigbits(w, op)
	}
	panic(engine.HarnessError{Msg: "unknown fn " + op.Fn})
}

func execBitmap(w *world, op ROp, viaValue bool) (out rOutcome) {
	if strings.HasPrefix(op.Fn, "bitmap.Huge") {
		hw := w.hugeWords
		if hw == nil {
			return
		}
		nbits := int64(len(hw)) * 64
		switch op.Fn {
		case "bitmap.HugeToArray":
			out.i32s = bitmap.ToArray(hw)
		case "bitmap.HugeIndexRank64":
			out.i32s = bitmap.IndexRank64(hw, op.A&1 == 1)
		case "bitmap.HugeIndexRank128":
			out.i32s = bitmap.IndexRank128(hw)
		case "bitmap.HugeIndexSelect32":
			out.i32s = bitmap.IndexSelect32(hw)
		case "bitmap.HugeIndexSelect32R64":
			s, r := bitmap.IndexSelect32R64(hw)
			out.i32s = append(append([]int32(nil), s...), r...)
		case "bitmap.HugeSlice":
			from := mod(op.A, 130)
			to := nbits - mod(op.B, 130)
			out.words = bitmap.Slice(hw, int32(from), int32(to))
		default:
			panic(engine.HarnessError{Msg: "unknown fn " + op.Fn})
		}
		return
	}
	if op.Fn == "bitmap.Getw" || op.Fn == "bitmap.Join" {
		j := w.joins[mod(int64(op.Obj), int64(len(w.joins)))]
		if op.Fn == "bitmap.Join" {
			out.words = bitmap.Join(j.subs, j.width)
			return
		}
		i := int32(mod(op.A, int64(j.n)))
		out.ints = []int64{int64(bitmap.Getw(j.words, i, j.width))}
		return
	}
	if op.Fn == "bitmap.FromStr32" {
		k := w.keys[mod(int64(op.Obj), int64(len(w.keys)))]
		s := k.keys[mod(op.C, int64(len(k.keys)))]
		from := int32(mod(op.A, int64(8*len(s)+9)))
		to := from + int32(mod(op.B, 33))
		var n int32
		var v uint64
		if viaValue {
			n, v = fvFromStr32(s, from, to)
		} else {
			n, v = bitmap.FromStr32(s, from, to)
		}
		out.ints = []int64{int64(n), int64(v)}
		return
	}
	b := w.bitmaps[mod(int64(op.Obj), int64(len(w.bitmaps)))]
	nbits := int64(len(b.words)) * 64
	switch op.Fn {
	case "bitmap.Rank64":
		i := int32(mod(op.A, nbits))
		idx := b.r64
		if op.B&1 == 1 {
			idx = b.r64t
		}
		var r, bit int32
		if viaValue {
			r, bit = fvRank64(b.words, idx, i)
		} else {
			r, bit = bitmap.Rank64(b.words, idx, i)
		}
		out.ints = []int64{int64(r), int64(bit)}
	case "bitmap.Rank128":
		i := int32(mod(op.A, nbits))
		var r, bit int32
		if viaValue {
			r, bit = fvRank128(b.words, b.r128, i)
		} else {
			r, bit = bitmap.Rank128(b.words, b.r128, i)
		}
		out.ints = []int64{int64(r), int64(bit)}
	case "bitmap.Select32":
		if b.ones == 0 {
			return
		}
		i := int32(mod(op.A, int64(b.ones)))
		var a1, a2 int32
		if viaValue {
			a1, a2 = fvSelect32(b.words, b.s32, i)
		} else {
			a1, a2 = bitmap.Select32(b.words, b.s32, i)
		}
		out.ints = []int64{int64(a1), int64(a2)}
	case "bitmap.Select32OutOfRange":
		// i < 0, or i beyond what the select index covers: Select32 refuses with
		// a panic (pinned by the library's own TestSelect32_panic)
		i := int32(32*len(b.s32)) + int32(mod(op.A, 4096))
		if op.B&1 == 1 {
			i = -1 - int32(mod(op.A, 4096))
		}
		var a1, a2 int32
		if viaValue {
			a1, a2 = fvSelect32(b.words, b.s32, i)
		} else {
			a1, a2 = bitmap.Select32(b.words, b.s32, i)
		}
		out.ints = []int64{int64(a1), int64(a2)}
	case "bitmap.Select32R64":
		if b.ones == 0 {
			return
		}
		i := int32(mod(op.A, int64(b.ones)))
		a1, a2 := bitmap.Select32R64(b.words, b.s32r, b.s32rRank, i)
		out.ints = []int64{int64(a1), int64(a2)}
	case "bitmap.NextOne":
		i := mod(op.A, nbits)
		end := i + mod(op.B, nbits-i+1)
		var r int32
		if viaValue {
			r = fvNextOne(b.words, int32(i), int32(end))
		} else {
			r = bitmap.NextOne(b.words, int32(i), int32(end))
		}
		out.ints = []int64{int64(r)}
	case "bitmap.PrevOne":
		end := 1 + mod(op.A, nbits)
		i := mod(op.B, end)
		out.ints = []int64{int64(bitmap.PrevOne(b.words, int32(i), int32(end)))}
	case "bitmap.Slice":
		from := mod(op.A, nbits)
		span := nbits - from
		if span > 700 {
			span = 700
		}
		to := from + mod(op.B, span+1)
		out.words = bitmap.Slice(b.words, int32(from), int32(to))
	case "bitmap.ToArray":
		out.i32s = bitmap.ToArray(b.words)
	case "bitmap.Get":
		out.ints = []int64{int64(bitmap.Get(b.words, int32(mod(op.A, nbits))))}
	case "bitmap.Get1":
		out.ints = []int64{int64(bitmap.Get1(b.words, int32(mod(op.A, nbits))))}
	case "bitmap.SafeGet":
		i := int32(mod(op.A, 3*nbits) - nbits)
		out.ints = []int64{int64(bitmap.SafeGet(b.words, i)), int64(bitmap.SafeGet1(b.words, i))}
	case "bitmap.IndexRank64":
		out.i32s = bitmap.IndexRank64(b.words, op.A&1 == 1)
	case "bitmap.IndexRank128":
		out.i32s = bitmap.IndexRank128(b.words)
	case "bitmap.IndexSelect32":
		out.i32s = bitmap.IndexSelect32(b.words)
	case "bitmap.IndexSelect32R64":
		s, r := bitmap.IndexSelect32R64(b.words)
		out.i32s = s
		out.ints = make([]int64, len(r))
		for i, v := range r {
			out.ints[i] = int64(v)
		}
	case "bitmap.Of":
		out.words = bitmap.Of(b.pos, int32(nbits))
	case "bitmap.OfMany":
		out.words = bitmap.OfMany(b.segs, b.sizes)
	case "bitmap.OfUnsorted":
		out.words = bitmap.Of(b.unsorted, int32(nbits))
	case "bitmap.TailGet":
		// queries on a TailBitmap that nobody mutates any more
		end := b.tail.Offset + 64*int64(len(b.tail.Words))
		if end <= 0 {
			return
		}
		j := mod(op.A, end)
		out.ints = []int64{int64(b.tail.Get(j)), int64(b.tail.Get1(j))}
	case "bitmap.Fmt":
		out.strs = []string{bitmap.Fmt(b.words[mod(op.A, int64(len(b.words)))]), bitmap.Fmt(int32(op.B))}
	default:
		panic(engine.HarnessError{Msg: "unknown fn " + op.Fn})
	}
	return
}

func execBmtree(w *world, op ROp, viaValue bool) (out rOutcome) {
	switch op.Fn {
	case "bmtree.IndexToPath":
		h := int32(mod(op.A, 21))
		idx := int32(mod(op.B, int64(1)<<uint(h+1)-1))
		out.ints = []int64{int64(bmtree.IndexToPath(h, idx))}
		return
	case "bmtree.PathOf", "bmtree.PathsOf":
		k := w.keys[mod(int64(op.Obj), int64(len(w.keys)))]
		h := int32(mod(op.B, 31))
		if op.Fn == "bmtree.PathsOf" {
			from := int32(mod(op.A, 64))
			out.words = bmtree.PathsOf(k.keys, from, h, op.C&1 == 1)
			return
		}
		s := k.keys[mod(op.C, int64(len(k.keys)))]
		from := int32(mod(op.A, int64(8*len(s)+9)))
		var p uint64
		if viaValue {
			p = fvPathOf(s, from, h)
		} else {
			p = bmtree.PathOf(s, from, h)
		}
		out.ints = []int64{int64(p)}
		return
	}
	m := w.masks[mod(int64(op.Obj), int64(len(w.masks)))]
	h := bmtree.Height(m.mask)
	np := int64(len(m.paths))
	switch op.Fn {
	case "bmtree.PathToIndex":
		p := m.paths[mod(op.A, np)]
		out.ints = []int64{int64(bmtree.PathToIndex(m.mask, p))}
	case "bmtree.PathToIndexLoose":
		l := int32(mod(op.A, int64(h)+1))
		bits := uint64(mod(op.B, int64(1)<<uint(l))) << uint(h-l)
		p := bmtree.NewPath(bits, l, h)
		i, has := bmtree.PathToIndexLoose(m.mask, p)
		out.ints = []int64{int64(i), int64(has)}
	case "bmtree.AllPaths":
		from := m.paths[mod(op.A, np)]
		to := m.paths[mod(op.B, np)] + uint64(op.C&1)
		if op.C&2 != 0 {
			from, to = 0, 1<<63
		}
		if op.C&4 != 0 && np > 16 {
			// exactly cnt paths, cnt a "round" number (what an initial capacity or a
			// growth step is likely to be), as far as the tree has that many
			cnt := roundCounts[mod(op.B, int64(len(roundCounts)))]
			for cnt > np {
				cnt /= 2
			}
			a := mod(op.A, np-cnt+1)
			from = m.paths[a]
			if a+cnt < np {
				to = m.paths[a+cnt]
			} else {
				to = m.paths[np-1] + 1
			}
		}
		out.words = bmtree.AllPaths(m.mask, from, to)
	case "bmtree.Decode":
		if op.A&1 == 1 {
			out.words = bmtree.Decode(m.mask, m.bmShort)
		} else {
			out.words = bmtree.Decode(m.mask, m.bm)
		}
	case "bmtree.PathLen":
		p := m.paths[mod(op.A, np)]
		out.ints = []int64{int64(bmtree.PathLen(p)), int64(bmtree.PathHeight(p)), int64(bmtree.PathBits(p)), int64(bmtree.PathMask(p)), int64(bmtree.Height(m.mask)),
			int64(bmtree.NewPath(bmtree.PathBits(p)>>uint(bmtree.PathHeight(p)-bmtree.PathLen(p)), bmtree.PathLen(p), h))}
	case "bmtree.PathStr":
		out.strs = []string{bmtree.PathStr(m.paths[mod(op.A, np)])}
	default:
		panic(engine.HarnessError{Msg: "unknown fn " + op.Fn})
	}
	return
}

func execBitstr(w *world, op ROp, viaValue bool, poison uint64) (out rOutcome) {
	k := w.keys[mod(int64(op.Obj), int64(len(w.keys)))]
	n := int64(len(k.keys))
	i, j := mod(op.A, n), mod(op.B, n)
	switch op.Fn {
	case "bitstr.New":
		s := k.keys[i]
		from := mod(op.B, int64(8*len(s))+1)
		to := from + mod(op.C, int64(8*len(s))-from+1)
		out.bytes = bitstr.New(s, int32(from), int32(to))
	case "bitstr.Len":
		out.ints = []int64{int64(bitstr.Len(k.bs[i]))}
	case "bitstr.Cmp":
		if viaValue {
			out.ints = []int64{int64(fvCmp(k.bs[i], k.bs[j]))}
		} else {
			out.ints = []int64{int64(bitstr.Cmp(k.bs[i], k.bs[j]))}
		}
	case "bitstr.CmpUpto":
		if viaValue {
			out.ints = []int64{int64(fvCmpUpto(k.kb[i], k.bs[j]))}
		} else {
			out.ints = []int64{int64(bitstr.CmpUpto(k.kb[i], k.bs[j]))}
		}
	case "bitstr.StrCmpUpto":
		if viaValue {
			r := fvStrCmpUpto(k.keys[i], k.bs[j])
			out.ints = []int64{int64(r), int64(r)}
		} else {
			r, pan := strCmpUptoFromDeferFrame(k.keys[i], k.bs[j], poison, op.C)
			if pan != nil {
				panic(pan)
			}
			r2 := strCmpUptoFromFrameWithLocals(k.keys[i], k.bs[j], op.C)
			r3, pan3 := strCmpUptoFromBigFrame(k.keys[i], k.bs[j], op.C)
			if pan3 != nil {
				panic(pan3)
			}
			if r2 != r || r3 != r {
				r = 99
			}
			out.ints = []int64{int64(r), int64(r)}
			return
		}
	default:
		panic(engine.HarnessError{Msg: "unknown fn " + op.Fn})
	}
	return
}

// strCmpUptoFromDeferFrame calls StrCmpUpto directly (inlinable) from a frame
// with a deferred recover, named results and live locals: another call shape
// ordinary callers have. What lies next to the callee's view of its string
// argument differs from shape to shape; a correct function does not care.
//
//go:noinline
func strCmpUptoFromDeferFrame(a string, b []byte, p uint64, c int64) (r int, pan interface{}) {
	defer func() { pan = recover() }()
	x, y, z := c+1, c*3, c^0x55
	poisonStack(p)
	r = bitstr.StrCmpUpto(a, b)
	keepAlive(x, y, z)
	return
}

// strCmpUptoFromBigFrame: as above, from a frame that also holds a sizeable
// local array, so that the callee's temporaries lie well below the top of the
// frame (where the stack still holds whatever earlier calls left there — the
// plan's poison pattern).
//
//go:noinline
func strCmpUptoFromBigFrame(a string, b []byte, c int64) (r int, pan interface{}) {
	defer func() { pan = recover() }()
	var pad [48]int64
	pad[c&31] = c
	r = bitstr.StrCmpUpto(a, b)
	keepAlive(pad[0], pad[c&31], pad[47])
	return
}

// strCmpUptoFromFrameWithLocals calls StrCmpUpto directly from a frame that
// holds several live locals (a call shape ordinary callers have).
//
//go:noinline
func strCmpUptoFromFrameWithLocals(a string, b []byte, c int64) int {
	x, y, z := c+1, c*3, c^0x55
	r := bitstr.StrCmpUpto(a, b)
	keepAlive(x, y, z)
	return r
}

//go:noinline
//go:norace
func keepAlive(x, y, z int64) { poisonSink += uint64(x + y + z) }

func execBitword(w *world, op ROp) (out rOutcome) {
	k := w.keys[mod(int64(op.Obj), int64(len(w.keys)))]
	n := int64(len(k.keys))
	width := []int{1, 2, 4, 8}[mod(op.C, 4)]
	bw := bitword.BitWord[width]
	i, j := mod(op.A, n), mod(op.B, n)
	switch op.Fn {
	case "bitword.FromStr":
		out.bytes = bw.FromStr(k.keys[i])
	case "bitword.ToStr":
		// also word lists that stop in the middle of a byte (the missing words
		// count as 0): a PREFIX of the stored list, whose capacity runs on into
		// the words that follow — in the twin world the same prefix with
		// cap == len
		ws := k.words[width][i]
		if drop := int(mod(op.B, int64(2*8/width))); drop <= len(ws) {
			n := len(ws) - drop
			if w.twin {
				ws = ws[:n:n]
			} else {
				ws = ws[:n]
			}
		}
		out.strs = []string{bw.ToStr(ws)}
	case "bitword.Get":
		s := k.keys[i]
		nw := int64(len(s) * 8 / width)
		if nw == 0 {
			return
		}
		out.ints = []int64{int64(bw.Get(s, int(mod(op.B, nw))))}
	case "bitword.FirstDiff":
		a, b := k.keys[i], k.keys[j]
		la := int64(len(a) * 8 / width)
		lb := int64(len(b) * 8 / width)
		from := mod(op.A>>8, la+1)
		end := mod(op.B>>8, la+lb+2)
		if op.C&4 != 0 {
			end = -1
		}
		out.ints = []int64{int64(bw.FirstDiff(a, b, int(from), int(end)))}
	case "bitword.FromStrs":
		out.bss = bw.FromStrs(k.keys)
	case "bitword.ToStrs":
		out.strs = bw.ToStrs(k.words[width])
	default:
		panic(engine.HarnessError{Msg: "unknown fn " + op.Fn})
	}
	return
}

func execSigbits(w *world, op ROp) (out rOutcome) {
	switch op.Fn {
	case "sigbits.HugeFirstDiffBits", "sigbits.HugeShardByPrefix", "sigbits.HugeNew":
		if w.huge == nil {
			return
		}
		switch op.Fn {
		case "sigbits.HugeFirstDiffBits":
			out.i32s = sigbits.FirstDiffBits(w.huge)
		case "sigbits.HugeShardByPrefix":
			p, c := sigbits.ShardByPrefix(w.huge, int32(64+mod(op.A, 200)))
			out.i32s = append(append([]int32(nil), p...), -1)
			out.i32s = append(out.i32s, c...)
		case "sigbits.HugeNew":
			sb := sigbits.New(w.huge)
			m, c := sb.CountPrefixes(int32(mod(op.A, 1000)), int32(len(w.huge))-int32(mod(op.B, 1000)), int32(1+mod(op.C, 40)))
			out.ints = []int64{int64(m)}
			out.i32s = c
		}
		return
	}
	k := w.keys[mod(int64(op.Obj), int64(len(w.keys)))]
	n := int64(len(k.keys))
	switch op.Fn {
	case "sigbits.FirstDiffBits":
		out.i32s = sigbits.FirstDiffBits(k.keys)
	case "sigbits.New":
		sb := sigbits.New(k.keys)
		m, c := sb.CountPrefixes(0, int32(n), int32(1+mod(op.A, 40)))
		out.ints = []int64{int64(m)}
		out.i32s = c
	case "sigbits.CountPrefixes":
		s := mod(op.A, n-1)
		e := s + 2 + mod(op.B, n-s-1)
		m, c := k.sb.CountPrefixes(int32(s), int32(e), int32(1+mod(op.C, 40)))
		out.ints = []int64{int64(m)}
		out.i32s = c
	case "sigbits.ShardByPrefix":
		p, c := sigbits.ShardByPrefix(k.keys, int32(1+mod(op.A, n+2)))
		out.i32s = append(append([]int32(nil), p...), -1)
		out.i32s = append(out.i32s, c...)
	default:
		panic(engine.HarnessError{Msg: "unknown fn " + op.Fn})
	}
	return
}

// ---- plan generation --------------------------------------------------------

// roundCounts: result sizes at which a buffer of a typical initial capacity, or
// one grown by doubling from it, is exactly full.
var roundCounts = []int64{1000, 1000, 1024, 1024, 512, 500, 256, 128, 100, 64, 32, 16, 2000, 2048, 4096, 1536, 3072, 8192}

func genReaders(seed uint64, allowFmt bool, cold bool, deepTier bool, rare string) *ReadersPlan {
	r := engine.NewPRNG(seed)
	p := &ReadersPlan{World: genWorldSpec(r)}
	// the huge-input plan classes are placed at fixed run indices of every batch
	// (engine tier suffix /rare1../rare3) and otherwise left to chance
	switch rare {
	case "rare1":
		p.World.HugeKeys, p.World.HugeWords, p.World.HugeMasks = 0, 0, true
	case "rare2":
		p.World.HugeKeys, p.World.HugeWords, p.World.HugeMasks = 0, r.PickInt(1<<16, 1<<16+1, 1<<17, 100000), false
	case "rare3":
		p.World.HugeKeys, p.World.HugeWords, p.World.HugeMasks = r.PickInt(1<<18, 1<<18+1, 300000), 0, false
	}
	if allowFmt { // (allowFmt = the statement-yield flavour)
		switch {
		case p.World.HugeMasks:
			p.YieldStride = 256
		case p.World.HugeKeys > 0 || p.World.HugeWords > 0:
			p.YieldStride = 16
		}
	}
	nt := 2 + r.Intn(3)
	if deepTier && r.Chance(1, 5) {
		nt = 4 + r.Intn(3) // thorough tier: up to 6 reader tasks
	}
	p.RefAfter = r.Chance(1, 4) || cold
	// a run concentrates on a few functions and objects so that tasks really
	// collide on the same data
	nfocus := r.PickInt(1, 2, 4, 8, len(readerFns))
	var focus []string
	if p.RefAfter {
		// wide and long: every function is likely to be FIRST used concurrently
		nt = 3 + r.Intn(2)
		for _, f := range readerFns {
			if (!fmtUsing[f] && !refusing[f]) || allowFmt {
				focus = append(focus, f)
			}
		}
		nfocus = len(focus)
	}
	for len(focus) < nfocus {
		f := readerFns[r.Intn(len(readerFns))]
		if fmtUsing[f] && !allowFmt {
			continue
		}
		focus = append(focus, f)
	}
	if p.World.HugeKeys > 0 {
		// a run with a huge key list is ABOUT it: a few calls per task on that list
		p.RefAfter = false
		nt = 2
		focus = hugeFns
	}
	if p.World.HugeWords > 0 {
		p.RefAfter = false
		nt = 2
		focus = hugeBitmapFns
	}
	if p.World.HugeMasks {
		p.RefAfter = false
		nt = 2 + r.Intn(2)
		focus = []string{"bmtree.Decode"}
	}
	for t := 0; t < nt; t++ {
		nops := 5 + r.Intn(36)
		if deepTier && r.Chance(1, 5) {
			nops = 40 + r.Intn(60)
		}
		if p.World.HugeKeys > 0 || p.World.HugeWords > 0 {
			nops = 1 + r.Intn(2)
		}
		if p.World.HugeMasks {
			// two calls per task, each on another tree than the task's previous call
			// and than the other tasks' calls (see below)
			nops = 2
		}
		if p.RefAfter {
			nops = 30 + r.Intn(11)
		}
		var ops []ROp
		for i := 0; i < nops; i++ {
			op := ROp{Fn: focus[r.Intn(len(focus))], Obj: r.Intn(3), A: int64(r.Uint64() >> 20), B: int64(r.Uint64() >> 20), C: int64(r.Uint64() >> 40)}
			if r.Chance(1, 3) && len(ops) > 0 {
				// repeat an earlier query exactly (what a memo cache would key on)
				op = ops[r.Intn(len(ops))]
			}
			if r.Chance(1, 4) && t > 0 && len(p.Tasks[0]) > 0 {
				op = p.Tasks[0][r.Intn(len(p.Tasks[0]))] // same query as another task
			}
			ops = append(ops, op)
		}
		if p.World.HugeMasks {
			for i := range ops {
				ops[i].Obj = (t + i) % 3 // every call meets what a call for ANOTHER tree left behind
			}
		}
		if len(p.World.Masks) > 0 && p.World.Masks[0] >= 1<<11-1 && !p.World.HugeMasks && p.World.HugeKeys == 0 && p.World.HugeWords == 0 {
			// a wide tree is there to be asked for round numbers of paths: early in
			// the task (a pooled buffer is smallest before anything big ran), and
			// followed by calls on other trees that would reuse such a buffer
			k := r.Intn(len(roundCounts))
			pre := []ROp{{Fn: "bmtree.AllPaths", Obj: 0, A: int64(r.Uint64() >> 20), B: int64(k), C: 4},
				{Fn: "bmtree.AllPaths", Obj: 1, A: int64(r.Uint64() >> 20), B: int64(r.Uint64() >> 20), C: 2},
				{Fn: "bmtree.Decode", Obj: 1 + r.Intn(2), A: int64(r.Intn(2))}}
			ops = append(pre, ops...)
		}
		p.Tasks = append(p.Tasks, ops)
	}
	p.Pad = r.Intn(8)
	if allowFmt && !p.RefAfter && p.YieldStride == 0 && r.Chance(1, 20) {
		p.GCPoints = 1 + r.Intn(4)
	}
	p.Sched = engine.Schedule{Mode: "hash", Seed: r.Uint64(), Den: r.PickInt(1, 2, 3, 8)}
	p.Poisons = []uint64{r.PickUint64(0, 1, 8), r.PickUint64(1<<63-1, ^uint64(0), r.Uint64()), r.PickUint64(0, 1, 8, 1<<63-1, ^uint64(0))}
	return p
}

func decodeReaders(raw []byte) (engine.Plan, error) {
	var p ReadersPlan
	if err := json.Unmarshal(raw, &p); err != nil {
		return nil, err
	}
	return &p, nil
}

func shrinkReaders(pl engine.Plan) []engine.Plan {
	p := pl.(*ReadersPlan)
	var out []engine.Plan
	clone := func() *ReadersPlan {
		b, _ := json.Marshal(p)
		var q ReadersPlan
		_ = json.Unmarshal(b, &q)
		return &q
	}
	if len(p.Tasks) > 1 {
		for i := range p.Tasks {
			q := clone()
			q.Tasks = append(q.Tasks[:i], q.Tasks[i+1:]...)
			out = append(out, q)
		}
	}
	for ti, ops := range p.Tasks {
		for _, chunk := range []int{len(ops) / 2, len(ops) / 4, 1} {
			if chunk < 1 || chunk >= len(ops) {
				continue
			}
			for s := 0; s+chunk <= len(ops); s += chunk {
				q := clone()
				q.Tasks[ti] = append(q.Tasks[ti][:s], q.Tasks[ti][s+chunk:]...)
				out = append(out, q)
			}
		}
	}
	if p.RefAfter {
		q := clone()
		q.RefAfter = false
		out = append(out, q)
	}
	if p.Sched.Mode == "hash" && p.Sched.Den != 1 {
		q := clone()
		q.Sched.Den = 1
		out = append(out, q)
	}
	if p.Sched.Mode != "seq" {
		q := clone()
		q.Sched = engine.Schedule{Mode: "seq"}
		out = append(out, q)
	}
	// shrink the world: fewer / smaller objects (ops index objects modulo the count)
	if len(p.World.Bitmaps) > 1 {
		q := clone()
		q.World.Bitmaps = q.World.Bitmaps[:len(q.World.Bitmaps)-1]
		out = append(out, q)
	}
	for i, b := range p.World.Bitmaps {
		if b.NWords > 1 {
			q := clone()
			q.World.Bitmaps[i].NWords = b.NWords / 2
			out = append(out, q)
		}
	}
	if len(p.World.Keys) > 1 {
		q := clone()
		q.World.Keys = q.World.Keys[:len(q.World.Keys)-1]
		out = append(out, q)
	}
	for i, k := range p.World.Keys {
		if k.N > 2 {
			q := clone()
			q.World.Keys[i].N = k.N / 2
			if q.World.Keys[i].N < 2 {
				q.World.Keys[i].N = 2
			}
			out = append(out, q)
		}
	}
	if len(p.World.Masks) > 1 {
		q := clone()
		q.World.Masks = q.World.Masks[:len(q.World.Masks)-1]
		out = append(out, q)
	}
	if len(p.World.Joins) > 1 {
		q := clone()
		q.World.Joins = q.World.Joins[:len(q.World.Joins)-1]
		out = append(out, q)
	}
	for ti, ops := range p.Tasks {
		for oi, op := range ops {
			if op.A > 64 || op.B > 64 || op.C > 64 {
				q := clone()
				q.Tasks[ti][oi].A, q.Tasks[ti][oi].B, q.Tasks[ti][oi].C = op.A%64, op.B%64, op.C%64
				out = append(out, q)
			}
		}
	}
	return out
}
