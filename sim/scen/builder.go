package scen

import (
	"encoding/json"
	"fmt"
	"math/bits"
	"runtime"
	"sort"
	"strings"

	"github.com/openacid/low/bitmap"

	"verifsim/engine"
)

// ---------------------------------------------------------------------------
// C12 — scenario "builder-hist" (DESIGN §4.3)
//
// Honest scope: the history-quantified clauses of C12 (any sequence of
// Builder.Extend / Builder.Set calls, OfMany over a sequence of segments) are
// decided by seeded call histories against a reference model checked after
// every call. NO fault and NO schedule exists for this surface (in-memory,
// single owner): the fault injector and the scheduler are idle. Of, ToArray,
// Get*, SafeGet* are exercised only as probes on the states the histories reach.
// ---------------------------------------------------------------------------

type BuilderPlan struct {
	Prealloc int32 `json:"prealloc"`
	// Dirty > 0: the Builder is not made by NewBuilder but is a literal over a
	// buffer the caller owns and has used before — &Builder{Words: buf[:0]} with
	// Dirty words of capacity, all of them non-zero (the type's fields are
	// exported; an array is recycled this way). A word the Builder grows into
	// must still start as zero.
	Dirty     int    `json:"dirty,omitempty"`
	Ops       []BOp  `json:"ops"`
	ProbeSeed uint64 `json:"probe_seed"`
}

type BOp struct {
	Op   string  `json:"op"` // extend | set
	Pos  []int32 `json:"pos,omitempty"`
	Size int32   `json:"size,omitempty"`
	Bit  int32   `json:"bit,omitempty"`
	Val  int32   `json:"val,omitempty"`
}

type Builder struct{}

func (Builder) Name() string     { return "builder-hist" }
func (Builder) Property() string { return "C12" }

func (Builder) Decode(raw []byte) (engine.Plan, error) {
	var p BuilderPlan
	if err := json.Unmarshal(raw, &p); err != nil {
		return nil, err
	}
	return &p, nil
}

func (Builder) Generate(seed uint64, tier string) engine.Plan {
	r := engine.NewPRNG(seed)
	p := &BuilderPlan{ProbeSeed: r.Uint64()}
	if strings.HasSuffix(tier, "/rare1") && (deep(tier) || r.Chance(1, 4)) {
		// placed at one run index per 1024 (quick tier: a quarter of those): a history whose running size comes
		// within the last word below 2^31 (positions and sizes are int32: the
		// whole range is the statement's domain; a 256 MiB bitmap)
		top := int64(1<<31 - 1)
		a := top - r.PickInt64(64, 65, 100, 127, 128, 1000)
		p.Ops = append(p.Ops, BOp{Op: "extend", Pos: []int32{3, 63, int32(a - 1)}, Size: int32(a)})
		s2 := top - a - r.PickInt64(0, 0, 1, 2, 31, 40, 62)
		if s2 < 0 {
			s2 = 0
		}
		op := BOp{Op: "extend", Size: int32(s2)}
		if s2 > 0 && r.Chance(1, 2) {
			op.Pos = []int32{int32(s2 - 1)}
		}
		p.Ops = append(p.Ops, op)
		if bit := a + s2 + r.PickInt64(0, 0, 1, 5); bit <= top-1 && r.Chance(2, 3) {
			p.Ops = append(p.Ops, BOp{Op: "set", Bit: int32(bit), Val: 1})
		}
		return p
	}
	p.Prealloc = int32(r.PickInt64(0, 0, 1, 64, 1000))
	if r.Chance(1, 6) {
		p.Dirty = r.PickInt(1, 2, 3, 16, 17, 1024)
	}
	if r.Chance(1, 8) {
		p.Prealloc = int32(r.PickInt64(1<<15, 1<<15+1, 1<<16, 1<<17)) // 512 words and more
	}
	nops := 1 + r.Intn(8)
	if r.Chance(1, 6) {
		nops = 1 + r.Intn(40)
	}
	if deep(tier) && r.Chance(1, 10) {
		nops = 40 + r.Intn(110) // thorough tier: long histories
	}
	setProb := r.PickInt(0, 0, 1, 3) // out of 10
	off := int64(0)                  // generator's running offset estimate
	if r.Chance(1, 12) {
		// a history that starts FAR out: one sparse segment carries the running
		// offset past 2^16 / 2^17 / 2^20 bits (where a 16-bit or otherwise narrow
		// intermediate would wrap) before the ordinary segments follow
		op := BOp{Op: "extend"}
		op.Size = int32(r.PickInt64(65535, 65536, 65537, 1<<17-1, 1<<17, 1<<20, 1<<20+1, r.Range(1<<16, 1<<21)))
		for _, q := range []int32{0, 63, 64, op.Size / 2, op.Size - 65, op.Size - 64, op.Size - 1} {
			if q >= 0 && q < op.Size && r.Chance(1, 2) && (len(op.Pos) == 0 || q > op.Pos[len(op.Pos)-1]) {
				op.Pos = append(op.Pos, q)
			}
		}
		if r.Chance(1, 20) {
			// … and rarely ONE step of more than 2^26 bits (a million words at
			// once: beyond any growth policy's idea of a reasonable increment),
			// as one Extend or one Set; few steps follow (every check is linear)
			giant := int32(r.PickInt64(1<<26+64, 1<<26+1<<22+1, 1<<27))
			if r.Chance(1, 2) {
				op.Size = giant
				op.Pos = []int32{0, giant - 1}
			} else {
				op = BOp{Op: "set", Bit: giant, Val: 1}
			}
			if nops > 2 {
				nops = 2
			}
		}
		if op.Op == "set" {
			off = int64(op.Bit) + 1
		} else {
			off += int64(op.Size)
		}
		p.Ops = append(p.Ops, op)
	}
	for i := 0; i < nops && (off < 1<<22 || (off > 1<<26 && i < 2)); i++ {
		if r.Intn(10) < setProb {
			op := BOp{Op: "set", Val: int32(r.PickInt(1, 1, 1, 0))}
			switch r.Intn(6) {
			case 0:
				op.Bit = int32(off)
			case 1:
				op.Bit = int32(off) - 1
			case 2:
				op.Bit = int32(off + r.PickInt64(1, 63, 64, 65, 200))
			case 3:
				op.Bit = int32(r.Range(0, off+1))
			default:
				op.Bit = int32((off+63)&^63) + int32(r.PickInt64(-1, 0, 1))
			}
			if op.Bit < 0 {
				op.Bit = 0
			}
			if int64(op.Bit) >= off {
				off = int64(op.Bit) + 1
			}
			p.Ops = append(p.Ops, op)
			continue
		}
		op := BOp{Op: "extend"}
		op.Size = int32(r.PickInt64(0, 0, 1, 63, 64, 65, 127, 128, 129, 255, 256, 257, 1023, 1024, 1025, r.Range(0, 300)))
		if r.Chance(1, 10) {
			op.Size = int32(r.Range(300, 5000))
		}
		// ascending relative positions inside [0,size)
		if op.Size > 0 {
			dens := r.PickInt(0, 1, 2, 8, 64, -2)
			if dens == -2 {
				// exactly alternating bits
				for q := int32(r.Intn(2)); q < op.Size; q += 2 {
					op.Pos = append(op.Pos, q)
				}
			} else if dens > 0 {
				for q := int32(0); q < op.Size; q++ {
					if r.Intn(dens) == 0 || (q == op.Size-1 && r.Chance(1, 3)) || (q == 0 && r.Chance(1, 3)) {
						op.Pos = append(op.Pos, q)
					}
				}
			}
		}
		if r.Chance(1, 4) {
			// a last position >= size: == size, size+1, next word boundary +-1
			var over int32
			nb := int32((off+int64(op.Size)+64)&^63 - off)
			switch r.Intn(5) {
			case 0:
				over = op.Size
			case 1:
				over = op.Size + 1
			case 2:
				over = nb - 1
			case 3:
				over = nb
			default:
				over = nb + 1
			}
			if over < op.Size {
				over = op.Size
			}
			op.Pos = append(op.Pos, over)
		}
		off += int64(op.Size)
		p.Ops = append(p.Ops, op)
	}
	return p
}

func sortedBits(m map[int32]struct{}) []int32 {
	out := make([]int32, 0, len(m))
	for k := range m {
		out = append(out, k)
	}
	sort.Slice(out, func(i, j int) bool { return out[i] < out[j] })
	return out
}

func wordsEqual(a, b []uint64) bool {
	if len(a) != len(b) {
		return false
	}
	for i := range a {
		if a[i] != b[i] {
			return false
		}
	}
	return true
}

func trimZeroWords(a []uint64) []uint64 {
	for len(a) > 0 && a[len(a)-1] == 0 {
		a = a[:len(a)-1]
	}
	return a
}

// bitsOf lists the set bits of words, by the harness's own scan.
func bitsOf(words []uint64) []int32 {
	var out []int32
	for i, w := range words {
		for w != 0 {
			b := bits.TrailingZeros64(w)
			out = append(out, int32(i*64+b))
			w &^= 1 << uint(b)
		}
	}
	return out
}

func int32sEqual(a, b []int32) bool {
	if len(a) != len(b) {
		return false
	}
	for i := range a {
		if a[i] != b[i] {
			return false
		}
	}
	return true
}

func ceilWords(n int64) int {
	if n <= 0 {
		return 0
	}
	return int((n + 63) / 64)
}

func (Builder) Execute(pl engine.Plan, c *engine.RunCtx) *engine.Failure {
	p := pl.(*BuilderPlan)
	st := c.Stats
	c.Tasks = 1
	var fail *engine.Failure
	step := 0
	guard := func(what func() string, f func()) bool {
		defer func() {
			if r := recover(); r != nil {
				if he, ok := r.(engine.HarnessError); ok {
					panic(he)
				}
				fail = engine.Failf("C12.panic", step, "%s panicked on valid input: %v", what(), r)
			}
		}()
		c.Status.SetStep(uint64(step), 1)
		f()
		c.Status.SetStep(uint64(step), 0)
		c.LibCalls++
		return fail == nil
	}
	var b *bitmap.Builder
	if p.Dirty > 0 {
		buf := make([]uint64, p.Dirty)
		for i := range buf {
			buf[i] = 0xdeadbeefcafef00d ^ uint64(i)*0x9e3779b97f4a7c15 | 1
		}
		b = &bitmap.Builder{Words: buf[:0]}
		st.Inc("probe.C12.builder_over_a_used_buffer")
	} else if !guard(func() string { return "NewBuilder" }, func() { b = bitmap.NewBuilder(p.Prealloc) }) {
		return fail
	}
	model := map[int32]struct{}{}
	offset := int32(0)
	maxbit := int32(-1)
	ascending := true // the concatenated shifted list is ascending and no Set happened
	sawSet := false
	var shifted []int32
	var segs [][]int32
	var sizes []int32
	// results of EARLIER Of / OfMany calls that the caller still holds: a value
	// once returned must stay what it was whatever is called afterwards
	type keptWords struct {
		what string
		at   int
		got  []uint64
		was  []uint64
	}
	var kept []keptWords
	keep := func(what string, w []uint64) {
		if len(w) > 1<<16 {
			return
		}
		if len(kept) >= 6 {
			kept = kept[1:]
		}
		kept = append(kept, keptWords{what, step, w, append([]uint64(nil), w...)})
	}
	checkKept := func() *engine.Failure {
		for _, k := range kept {
			if !wordsEqual(k.got, k.was) {
				return engine.Failf("C12.retain", step, "the bitmap %s returned at step %d (still held by the caller) has changed after later calls", k.what, k.at)
			}
		}
		return nil
	}

	for oi, op := range p.Ops {
		step = oi + 1
		c.HistoryLen++
		switch op.Op {
		case "extend":
			st.Inc("op.extend")
			posFull := append(append(make([]int32, 0, len(op.Pos)+2), op.Pos...), -7, -7)
			pos := posFull[:len(op.Pos)]
			if !guard(func() string { return fmt.Sprintf("Extend(%v, %d) at Offset=%d", op.Pos, op.Size, offset) }, func() { b.Extend(pos, op.Size) }) {
				return fail
			}
			if !int32sEqual(pos, op.Pos) || posFull[len(op.Pos)] != -7 || posFull[len(op.Pos)+1] != -7 {
				return engine.Failf("C12.extend.args", step, "Extend modified its positions argument (or the capacity behind it)")
			}
			for _, q := range op.Pos {
				bit := offset + q
				if len(shifted) > 0 && bit <= shifted[len(shifted)-1] {
					ascending = false
				}
				shifted = append(shifted, bit)
				model[bit] = struct{}{}
				if bit > maxbit {
					maxbit = bit
				}
			}
			if len(op.Pos) > 0 && op.Pos[len(op.Pos)-1] >= op.Size {
				st.Inc("probe.C12.extend_with_position_ge_size")
				if (int64(offset)+int64(op.Pos[len(op.Pos)-1])+1)%64 == 0 {
					st.Inc("probe.C12.overshoot_ends_on_word_boundary")
				}
			}
			if op.Size == 0 {
				st.Inc("probe.C12.extend_size_0")
			}
			segs = append(segs, op.Pos)
			sizes = append(sizes, op.Size)
			offset += op.Size
			if offset%64 == 0 && op.Size > 0 {
				st.Inc("probe.C12.segment_ends_on_word_boundary")
			}
		case "set":
			st.Inc("op.set")
			if !guard(func() string { return fmt.Sprintf("Set(%d, %d) at Offset=%d", op.Bit, op.Val, offset) }, func() { b.Set(op.Bit, op.Val) }) {
				return fail
			}
			ascending = false
			sawSet = true
			if op.Val&1 == 1 {
				model[op.Bit] = struct{}{}
				if op.Bit > maxbit {
					maxbit = op.Bit
				}
			}
			if offset <= op.Bit {
				offset = op.Bit + 1
				st.Inc("probe.C12.set_moves_offset")
			}
		default:
			panic(engine.HarnessError{Msg: "unknown builder op " + op.Op})
		}
		c.Ev(0, op.Op, int64(op.Size), int64(op.Bit), int64(b.Offset), int64(len(b.Words)))
		// ---- invariants after every call
		if b.Offset != offset {
			return engine.Failf("C12.offset", step, "after op %d (%s): Builder.Offset=%d, model %d", oi, op.Op, b.Offset, offset)
		}
		want := sortedBits(model)
		if got := bitsOf(b.Words); !int32sEqual(got, want) {
			return engine.Failf("C12.bits", step, "after op %d (%s): set bits of Builder.Words = %v, model %v", oi, op.Op, clip32(got), clip32(want))
		}
		need := int64(maxbit) + 1
		if int64(len(b.Words))*64 < need {
			return engine.Failf("C12.enough", step, "after op %d (%s): %d words do not hold bit %d", oi, op.Op, len(b.Words), maxbit)
		}
		if ascending {
			// "the bitmap Of would build from the positions shifted by the running sum"
			var ofw, omw []uint64
			if !guard(func() string { return fmt.Sprintf("Of(%v, %d)", clip32(shifted), offset) }, func() { ofw = bitmap.Of(shifted, offset) }) {
				return fail
			}
			if !wordsEqual(b.Words, ofw) {
				return engine.Failf("C12.extend_eq_of", step, "after op %d: Builder.Words (%d words) differs from Of(shifted positions, %d) (%d words)", oi, len(b.Words), offset, len(ofw))
			}
			// The segments are handed over the way a caller that keeps all position
			// lists in ONE flat array would: as sub-slices whose capacity runs on
			// into the following segments. The call is made twice: a callee that
			// appends into (or otherwise writes through) a segment corrupts the
			// caller's later segments, and the second call no longer yields the
			// bitmap Of would build.
			flat := make([]int32, 0, len(shifted)+4)
			for _, sg := range segs {
				flat = append(flat, sg...)
			}
			flat = append(flat, -7, -7, -7, -7)[:len(flat)] // sentinels in the spare capacity
			fsegs := make([][]int32, len(segs))
			at := 0
			for i, sg := range segs {
				fsegs[i] = flat[at : at+len(sg)]
				at += len(sg)
			}
			keep("Of", ofw)
			for rep := 0; rep < 2; rep++ {
				if !guard(func() string { return "OfMany" }, func() { omw = bitmap.OfMany(fsegs, sizes) }) {
					return fail
				}
				keep("OfMany", omw)
				if !wordsEqual(omw, ofw) {
					return engine.Failf("C12.ofmany_eq_of", step, "after op %d: OfMany(segments, sizes) (%d words, call #%d with the same arguments) differs from Of(shifted positions, total) (%d words)", oi, len(omw), rep+1, len(ofw))
				}
			}
			at = 0
			for _, sg := range segs {
				for j, v := range sg {
					if flat[at+j] != v {
						return engine.Failf("C12.ofmany.args", step, "after op %d: OfMany overwrote the caller's position lists (element %d of the flat array is now %d, was %d)", oi, at+j, flat[at+j], v)
					}
				}
				at += len(sg)
			}
			for _, v := range flat[len(flat) : len(flat)+4] {
				if v != -7 {
					return engine.Failf("C12.ofmany.args", step, "after op %d: OfMany wrote into the spare capacity behind the caller's position lists", oi)
				}
			}
			if wn := ceilWords(max64(int64(offset), need)); len(ofw) != wn {
				return engine.Failf("C12.of.words", step, "Of(list, %d) with last=%d returned %d words, want %d", offset, maxbit, len(ofw), wn)
			}
			st.Inc("probe.C12.history_equals_Of_checked")
		}
		if !ascending && !sawSet && len(segs) > 0 && len(shifted) > 0 {
			// Segments with positions >= their size make the rebased list
			// non-ascending. The statement gives OfMany and Builder.Extend the SAME
			// meaning on "all sequences of (positions,size) segments, including
			// positions >= size": every shifted bit set, enough words. OfMany sizes
			// its result from the sizes and the LAST rebased position, so it is
			// only defined when that covers every bit; inside that sub-domain its
			// bits must be the Builder's.
			lastShift := int64(shifted[len(shifted)-1])
			if ceilWords(max64(int64(offset), lastShift+1)) > int(maxbit>>6) {
				var omw []uint64
				if !guard(func() string { return "OfMany (segments with positions >= size)" }, func() { omw = bitmap.OfMany(segs, sizes) }) {
					return fail
				}
				if got := bitsOf(omw); !int32sEqual(got, want) {
					return engine.Failf("C12.ofmany.bits", step, "after op %d: OfMany over the same segments (some positions >= their size) has bits %v, Builder.Extend built %v", oi, clip32(got), clip32(want))
				}
				st.Inc("probe.C12.ofmany_with_positions_ge_size")
			}
		}
		if f := checkKept(); f != nil {
			return f
		}
		st.State(engine.HashU64(0, uint64(offset), uint64(len(b.Words)), uint64(len(model)), uint64(maxbit)))
		// ---- probes on the state reached
		if f := probeBitmap(b.Words, want, p.ProbeSeed, step, c, guard); f != nil {
			return f
		}
		if fail != nil {
			return fail
		}
	}
	if p.Prealloc >= 1<<15 {
		// The usual way a Builder is used: keep b.Words, drop the Builder. What it
		// built must stay what it was when the Builder is gone (collected, its
		// finalizers run) and ANOTHER big Builder has been created and filled.
		kept := b.Words
		keptBits := sortedBits(model)
		b = nil
		forceGC()
		st.Inc("fault.fired.gc.forced_collection_with_finalizers")
		c.FaultsFired++
		step++
		var b2 *bitmap.Builder
		if !guard(func() string { return "NewBuilder + Extend after the first Builder was dropped" }, func() {
			b2 = bitmap.NewBuilder(p.Prealloc)
			b2.Extend([]int32{1, 62, 63, 64, 200, p.Prealloc - 1}, p.Prealloc)
		}) {
			return fail
		}
		if got := bitsOf(kept); !int32sEqual(got, keptBits) {
			return engine.Failf("C12.retain", step, "the words a Builder produced (kept by the caller) changed after the Builder was dropped, a collection ran and another Builder of %d bits was filled: bits now %v, were %v", p.Prealloc, clip32(got), clip32(keptBits))
		}
		if got := bitsOf(b2.Words); !int32sEqual(got, []int32{1, 62, 63, 64, 200, p.Prealloc - 1}) {
			return engine.Failf("C12.bits", step, "a Builder created after another was dropped has bits %v, want [1 62 63 64 200 %d]", clip32(got), p.Prealloc-1)
		}
		runtime.KeepAlive(b2)
	}
	return nil
}

func max64(a, b int64) int64 {
	if a > b {
		return a
	}
	return b
}

func clip32(a []int32) []int32 {
	if len(a) > 24 {
		return append(append([]int32(nil), a[:24]...), -999)
	}
	return a
}

// probeBitmap exercises the reader functions on a bitmap whose set bits are
// known (want, ascending).
func probeBitmap(words []uint64, want []int32, seed uint64, step int, c *engine.RunCtx, guard func(func() string, func()) bool) *engine.Failure {
	arr := want
	if len(words) <= 1<<19 { // (ToArray visits every BIT: skipped above 2^25 bits)
		if !guard(func() string { return "ToArray" }, func() { arr = bitmap.ToArray(words) }) {
			return nil
		}
		if !int32sEqual(arr, want) {
			return engine.Failf("C12.toarray", step, "ToArray = %v, want %v", clip32(arr), clip32(want))
		}
	}
	var back []uint64
	if !guard(func() string { return "Of(ToArray(b))" }, func() { back = bitmap.Of(arr) }) {
		return nil
	}
	if !wordsEqual(trimZeroWords(back), trimZeroWords(words)) {
		return engine.Failf("C12.of_toarray", step, "Of(ToArray(b)) differs from b beyond trailing zero words")
	}
	last := int64(-1)
	if len(want) > 0 {
		last = int64(want[len(want)-1])
	}
	if wn := ceilWords(last + 1); len(back) != wn {
		return engine.Failf("C12.of.words", step, "Of(list) with last=%d returned %d words, want %d", last, len(back), wn)
	}
	// Of(list, n) for boundary n
	k := (last + 64) &^ 63
	for _, n := range []int64{-5, 0, last, last + 1, last + 2, k - 1, k, k + 1, k + 64} {
		if n > 1<<20 {
			continue
		}
		var w []uint64
		if !guard(func() string { return fmt.Sprintf("Of(list, %d)", n) }, func() { w = bitmap.Of(want, int32(n)) }) {
			return nil
		}
		if wn := ceilWords(max64(max64(n, last+1), 0)); len(w) != wn {
			return engine.Failf("C12.of.words", step, "Of(list, %d) with last=%d returned %d words, want ceil(max(n,last+1,0)/64)=%d", n, last, len(w), wn)
		}
		if got := bitsOf(w); !int32sEqual(got, want) {
			return engine.Failf("C12.of.bits", step, "Of(list, %d) has bits %v, want %v", n, clip32(got), clip32(want))
		}
	}
	// Get / Get1 / SafeGet / SafeGet1
	in := map[int32]bool{}
	for _, q := range want {
		in[q] = true
	}
	total64 := int64(len(words)) * 64
	total := int32(total64)
	if total64 > 1<<31-1 {
		total = 1<<31 - 1 // (2^25 words: every int32 position is inside)
	}
	var cand []int32
	for i, q := range want {
		if i < 12 || i >= len(want)-12 || engine.H(seed, uint64(step), uint64(i))%8 == 0 {
			cand = append(cand, q-1, q, q+1)
		}
	}
	cand = append(cand, 0, 63, 64, total-1)
	for _, j := range cand {
		if j < 0 || int64(j) >= total64 {
			continue
		}
		var g, g1, sg, sg1 uint64
		if !guard(func() string { return fmt.Sprintf("Get/Get1/SafeGet/SafeGet1(%d)", j) }, func() {
			g, g1, sg, sg1 = bitmap.Get(words, j), bitmap.Get1(words, j), bitmap.SafeGet(words, j), bitmap.SafeGet1(words, j)
		}) {
			return nil
		}
		w := uint64(0)
		if in[j] {
			w = 1
		}
		if g1 != w || sg1 != w || g != w<<uint(j&63) || sg != w<<uint(j&63) {
			return engine.Failf("C12.get", step, "position %d (member=%d): Get=%#x Get1=%d SafeGet=%#x SafeGet1=%d", j, w, g, g1, sg, sg1)
		}
	}
	for _, j64 := range []int64{-1, -63, -64, -65, total64, total64 + 1, total64 + 63, total64 + 64, 1 << 30, -(1 << 30), 1<<31 - 1, -(1 << 31)} {
		if j64 > 1<<31-1 || j64 < -(1<<31) || (j64 >= 0 && j64 < total64) {
			continue
		}
		j := int32(j64)
		var sg, sg1 uint64
		if !guard(func() string { return fmt.Sprintf("SafeGet/SafeGet1(%d) on %d words", j, len(words)) }, func() {
			sg, sg1 = bitmap.SafeGet(words, j), bitmap.SafeGet1(words, j)
		}) {
			return nil
		}
		if sg != 0 || sg1 != 0 {
			return engine.Failf("C12.safeget", step, "SafeGet(%d)=%#x SafeGet1(%d)=%d on a bitmap of %d bits: must be 0 outside", j, sg, j, sg1, total)
		}
	}
	return nil
}

func (Builder) Shrink(pl engine.Plan) []engine.Plan {
	p := pl.(*BuilderPlan)
	var out []engine.Plan
	clone := func() *BuilderPlan {
		b, _ := json.Marshal(p)
		var q BuilderPlan
		_ = json.Unmarshal(b, &q)
		return &q
	}
	for _, chunk := range []int{len(p.Ops) / 2, len(p.Ops) / 4, 1} {
		if chunk < 1 || chunk >= len(p.Ops) {
			continue
		}
		for s := 0; s+chunk <= len(p.Ops); s += chunk {
			q := clone()
			q.Ops = append(q.Ops[:s], q.Ops[s+chunk:]...)
			out = append(out, q)
		}
	}
	if p.Prealloc != 0 {
		q := clone()
		q.Prealloc = 0
		out = append(out, q)
	}
	if p.Dirty > 1 {
		q := clone()
		q.Dirty = 1
		out = append(out, q)
	}
	for i, op := range p.Ops {
		if op.Op == "extend" {
			if len(op.Pos) > 1 {
				q := clone()
				q.Ops[i].Pos = q.Ops[i].Pos[len(op.Pos)/2:]
				out = append(out, q)
				q = clone()
				q.Ops[i].Pos = q.Ops[i].Pos[:len(op.Pos)/2]
				out = append(out, q)
				q = clone()
				q.Ops[i].Pos = q.Ops[i].Pos[len(op.Pos)-1:]
				out = append(out, q)
			} else if len(op.Pos) == 1 {
				q := clone()
				q.Ops[i].Pos = nil
				out = append(out, q)
			}
			if op.Size > 1 {
				q := clone()
				q.Ops[i].Size = op.Size / 2
				out = append(out, q)
			}
		}
		if op.Op == "set" && op.Bit > 0 {
			q := clone()
			q.Ops[i].Bit = op.Bit / 2
			out = append(out, q)
		}
	}
	return out
}
