package scen

import (
	"context"
	"io"
	"os"
	"syscall"

	"verifsim/engine"
	"verifsim/simio"
)

// errKinds are the error VALUES a simulated writer or disk may fail with. The
// statements say "the writer's error is returned / propagated" whatever it is:
// a private sentinel, a well-known io error that the code under test itself
// uses for other purposes, or what a real file or socket returns (a
// *os.PathError around ENOSPC / EFBIG, a bare errno that says "temporary" or
// "interrupted", a deadline, a cancelled context).
var errKinds = []string{"", "", "", "shortwrite", "eof", "closedpipe", "enospc", "efbig", "eintr", "eagain", "deadline", "canceled", "unexpectedeof", "noprogress"}

// errOfKind builds the value for one execution (a fresh *os.PathError each
// time: identity is what propagation is checked by).
func errOfKind(kind string) error {
	switch kind {
	case "":
		return simio.ErrInjected
	case "shortwrite":
		return io.ErrShortWrite
	case "eof":
		return io.EOF
	case "closedpipe":
		return io.ErrClosedPipe
	case "enospc":
		return &os.PathError{Op: "write", Path: "/sim/disk", Err: syscall.ENOSPC}
	case "efbig":
		return &os.PathError{Op: "write", Path: "/sim/disk", Err: syscall.EFBIG}
	case "eintr":
		return syscall.EINTR
	case "eagain":
		return syscall.EAGAIN
	case "deadline":
		return os.ErrDeadlineExceeded
	case "canceled":
		return context.Canceled
	case "unexpectedeof":
		return io.ErrUnexpectedEOF
	case "noprogress":
		return io.ErrNoProgress
	}
	panic(engine.HarnessError{Msg: "unknown error kind " + kind})
}

// chainHas reports whether want is err itself or is reachable from it through
// Cause() / Unwrap() — "the writer's error is returned", possibly wrapped.
func chainHas(err, want error) (found bool) {
	defer func() {
		if recover() != nil { // an incomparable dynamic type somewhere in the chain
			found = false
		}
	}()
	for i := 0; i < 32 && err != nil; i++ {
		if err == want {
			return true
		}
		var next error
		if c, ok := err.(interface{ Cause() error }); ok {
			if n := c.Cause(); n != nil && n != err {
				next = n
			}
		}
		if next == nil {
			if u, ok := err.(interface{ Unwrap() error }); ok {
				next = u.Unwrap()
			}
		}
		err = next
	}
	return false
}
