//go:build !verifyield

package scen

import "unsafe"

// arena (heap flavour): shared inputs live on the Go heap, so that the race
// detector shadows them (-race build, DESIGN §4.6 "R build").
type arena struct {
	all byteRanges // every allocation handed out (full capacity): "is this address an input?"
	br  byteRanges
	mis int // rotating misalignment for byte data (0..7)
	// twin: see arena_common.go
	twin bool
	n    int
}

// exact reports whether the next twin slice gets cap == len.
func (a *arena) exact() bool {
	a.n++
	return a.twin && a.n%2 == 0
}

const ArenaReadOnly = false

func newArena(twin bool) *arena { return &arena{twin: twin} }

// Every slice handed out has spareCap elements of SPARE CAPACITY behind its
// length, filled with a sentinel: a callee that appends to (or re-slices and
// writes through) an argument modifies memory of its caller that lies beyond
// len — the snapshot covers the full capacity.
func (a *arena) u64s(x []uint64) []uint64 {
	out := make([]uint64, len(x)+spareCap)
	copy(out, x)
	for i := len(x); i < len(out); i++ {
		out[i] = sentinel64
		if a.twin {
			out[i] = twin64
		}
	}
	a.all.add(uintptr(unsafe.Pointer(&out[0])), uintptr(8*len(out)))
	if a.exact() {
		return out[:len(x):len(x)]
	}
	return out[:len(x)]
}
func (a *arena) i32s(x []int32) []int32 {
	out := make([]int32, len(x)+spareCap)
	copy(out, x)
	for i := len(x); i < len(out); i++ {
		out[i] = sentinel32
		if a.twin {
			out[i] = twin32
		}
	}
	a.all.add(uintptr(unsafe.Pointer(&out[0])), uintptr(4*len(out)))
	if a.exact() {
		return out[:len(x):len(x)]
	}
	return out[:len(x)]
}
func (a *arena) bytes(x []byte) []byte {
	// byte data starts at a rotating offset from an 8-byte boundary: code that
	// reads or compares word-at-a-time must not depend on alignment
	a.mis = (a.mis + 3) & 7
	full := make([]byte, len(x)+spareCap+8)
	out := full[a.mis : a.mis+len(x)+spareCap : a.mis+len(x)+spareCap]
	copy(out, x)
	for i := len(x); i < len(out); i++ {
		out[i] = sentinel8
		if a.twin {
			out[i] = twin8
		}
	}
	a.br.add(uintptr(unsafe.Pointer(&out[0])), uintptr(len(x)))
	a.all.add(uintptr(unsafe.Pointer(&out[0])), uintptr(len(out)))
	if a.exact() {
		return out[:len(x):len(x)]
	}
	return out[:len(x)]
}
func (a *arena) strs(x []string) []string {
	out := make([]string, len(x))
	for i, s := range x {
		a.mis = (a.mis + 3) & 7
		full := make([]byte, len(s)+8)
		copy(full[a.mis:], s)
		out[i] = string(full)[a.mis : a.mis+len(s)] // one copy; the string starts at a rotating misalignment
		if len(s) > 0 {
			a.all.add(uintptr(unsafe.Pointer(unsafe.StringData(out[i]))), uintptr(len(s)))
		}
	}
	return out
}
func (a *arena) seal()                        {}
func (a *arena) free()                        {}
func (a *arena) contains(addr uintptr) bool   { return a.all.contains(addr) }
func (a *arena) inGuard(addr uintptr) bool    { return false }
func enablePanicOnFault()                     {}
func faultAddr(r interface{}) (uintptr, bool) { return 0, false }

func (a *arena) baseAddr() uintptr { return 0 }
