//go:build !verifyield

package scen

// arena (heap flavour): shared inputs live on the Go heap, so that the race
// detector shadows them (-race build, DESIGN §4.6 "R build").
type arena struct{}

const ArenaReadOnly = false

func newArena() *arena { return &arena{} }

func (a *arena) u64s(x []uint64) []uint64 { return append(make([]uint64, 0, len(x)), x...) }
func (a *arena) i32s(x []int32) []int32   { return append(make([]int32, 0, len(x)), x...) }
func (a *arena) bytes(x []byte) []byte    { return append(make([]byte, 0, len(x)), x...) }
func (a *arena) strs(x []string) []string {
	out := make([]string, len(x))
	for i, s := range x {
		out[i] = string(append([]byte(nil), s...))
	}
	return out
}
func (a *arena) seal()                        {}
func (a *arena) free()                        {}
func (a *arena) contains(addr uintptr) bool   { return false }
func enablePanicOnFault()                     {}
func faultAddr(r interface{}) (uintptr, bool) { return 0, false }

func (a *arena) baseAddr() uintptr { return 0 }
