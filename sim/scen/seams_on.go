//go:build verifseams

package scen

import (
	"github.com/openacid/low/verifhook"

	"verifsim/engine"
)

// The module copy under test was passed through yieldinject's seams pass
// (check.sh): clock readings and package-level random numbers of the code
// under test come from the simulator. Every run starts them afresh from the
// hash of its plan, so a plan is one execution whatever ran before it.
func init() {
	engine.SeamReset = verifhook.SeamReset
	engine.SeamStats = verifhook.SeamStats
	engine.SeamAdvance = verifhook.Advance
	engine.SeamTimers = verifhook.TimersMade
}
