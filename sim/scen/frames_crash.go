package scen

import (
	"bytes"
	"encoding/json"
	"fmt"
	"io"

	"github.com/openacid/low/iohelper"

	"verifsim/engine"
	"verifsim/simio"
)

// F5 — crash and recovery on a shared disk (DESIGN §4.2).
//
// 1–3 writer tasks append frames through SectionWriters on ONE simulated disk.
// On an injected (transient) write error a task seeks back by the count Marshal
// returned and retries once — the idiomatic client, and the place where C18's
// cursor accounting and C07's returned count meet. The plan crashes the disk
// after a total number of accepted bytes (tearing the in-flight write).
// Recovery reads each section up to its high-water mark followed by a tail of
// nothing, zeros or garbage.
type CrashPlan struct {
	Writers    []CrashWriter     `json:"writers"`
	CrashAfter int64             `json:"crash_after"` // total accepted bytes; <0: no crash
	Tail       string            `json:"tail"`        // eof | zeros | garbage
	TailLen    int               `json:"tail_len,omitempty"`
	Sched      engine.Schedule   `json:"sched"`
	Policy     simio.ChunkPolicy `json:"policy"`
}

type CrashWriter struct {
	Off    int64      `json:"off"`
	Msgs   []MsgSpec  `json:"msgs"`
	Faults []SecFault `json:"faults,omitempty"` // Faults[i] armed on the first attempt of message i (Budget<0: none)
}

func genCrash(r *engine.PRNG, p *FaultsPlan) engine.Plan {
	cp := &CrashPlan{Policy: genPolicy(r)}
	nw := r.PickInt(1, 1, 2, 3)
	next := r.PickInt64(0, 7, 4096, 1<<40)
	total := int64(0)
	for wi := 0; wi < nw; wi++ {
		w := CrashWriter{Off: next}
		nm := 1 + r.Intn(4)
		sz := int64(0)
		for i := 0; i < nm; i++ {
			m := genMsg(r, 400)
			if !r.Chance(1, 6) {
				m.Len = r.PickInt(0, 1, 5, 31, 32, 33, 60, 200)
			}
			w.Msgs = append(w.Msgs, m)
			sz += int64(32 + m.bodyBound())
			f := SecFault{Kind: "fail", Budget: -1}
			if r.Chance(1, 4) {
				f.Budget = r.Range(0, int64(32+m.Len))
			}
			w.Faults = append(w.Faults, f)
		}
		total += sz
		next = w.Off + sz + 64 + r.PickInt64(0, 100)
		cp.Writers = append(cp.Writers, w)
	}
	cp.CrashAfter = -1
	if r.Chance(4, 5) {
		cp.CrashAfter = r.Range(0, total)
		if r.Chance(1, 4) { // bias to land right after a header
			cp.CrashAfter = r.PickInt64(0, 1, 31, 32, 33)
		}
	}
	cp.Tail = r.PickStr("eof", "eof", "zeros", "garbage")
	cp.TailLen = r.PickInt(1, 8, 31, 32, 33, 64, 200)
	cp.Sched = genSchedule(r, nw)
	p.Crash = cp
	return p
}

func execCrash(p *FaultsPlan, c *engine.RunCtx) *engine.Failure {
	cp := p.Crash
	st := c.Stats
	disk := simio.NewDisk()
	disk.CrashAfter = cp.CrashAfter
	if cp.CrashAfter >= 0 {
		st.Inc("fault.configured.disk.crash")
	}
	sch := engine.NewSched(cp.Sched)
	c.Tasks = len(cp.Writers)
	var fail *engine.Failure
	type wst struct {
		frames    []frameInfo
		committed int   // frames whose last byte was accepted before the crash
		end       int64 // section-relative end of the committed frames
		limit     int64
	}
	ws := make([]*wst, len(cp.Writers))
	stepc := 0
	for wi := range cp.Writers {
		w := cp.Writers[wi]
		fr, f := buildFrames("C07", w.Msgs, c, &stepc)
		if f != nil {
			return f
		}
		need := int64(0)
		for _, x := range fr {
			need += int64(len(x.frame))
		}
		ws[wi] = &wst{frames: fr, limit: need + 64}
	}
	for wi := range cp.Writers {
		wi := wi
		w := cp.Writers[wi]
		sch.Spawn(func(t *engine.Task) {
			s := ws[wi]
			h := disk.Handle(wi, t.Yield)
			sw := iohelper.NewSectionWriter(h, w.Off, s.limit)
			for i, fr := range s.frames {
				for attempt := 0; attempt < 2; attempt++ {
					if fail != nil {
						return
					}
					step := 10000 + wi*1000 + i*2 + attempt
					arm := simio.Arm{}
					if attempt == 0 && i < len(w.Faults) && w.Faults[i].Budget >= 0 {
						arm = simio.Arm{Active: true, Kind: "fail", Budget: w.Faults[i].Budget, Err: simio.ErrInjected}
						st.Inc("fault.configured.disk.fail")
					}
					h.BeginOp(arm)
					c.Status.SetStep(uint64(step), 1)
					n, err, pan := callMarshal(sw, fr.msg)
					c.Status.SetStep(uint64(step), 0)
					c.LibCalls++
					firedArm := h.EndOp()
					var got []byte
					for _, rc := range h.OpRecv() {
						if len(rc.Data) > 0 {
							if rc.Off != w.Off+s.end+int64(len(got)) {
								fail = engine.Failf("C07.crash.place", step, "writer %d frame %d: bytes landed at %d, expected %d", wi, i, rc.Off, w.Off+s.end+int64(len(got)))
								return
							}
							got = append(got, rc.Data...)
						}
					}
					c.Ev(wi, "marshal.crash", int64(i), int64(attempt), n, int64(len(got)))
					what := fmt.Sprintf("writer %d frame %d attempt %d", wi, i, attempt)
					if pan != nil {
						fail = engine.Failf("C07.wfail.panic", step, "%s: Marshal panicked: %v", what, pan)
						return
					}
					if n != int64(len(got)) {
						fail = engine.Failf("C07.wfail.count", step, "%s: Marshal returned n=%d, the disk accepted %d bytes (err=%v)", what, n, len(got), err)
						return
					}
					if !bytes.Equal(got, fr.frame[:len(got)]) {
						fail = engine.Failf("C07.wfail.prefix", step, "%s: the bytes on disk are not a prefix of the frame", what)
						return
					}
					if len(got) == len(fr.frame) && err == nil {
						s.committed++
						s.end += n
						break
					}
					if err == nil {
						fail = engine.Failf("C07.wfail.swallowed", step, "%s: only %d of %d bytes reached the disk but Marshal returned nil error", what, len(got), len(fr.frame))
						return
					}
					if disk.Crashed {
						if cause(err) != simio.ErrCrashed {
							fail = engine.Failf("C07.wfail.error", step, "%s: Marshal must return the writer's error (crash), got %v", what, err)
						}
						if len(got) == len(fr.frame) {
							// every byte made it and the crash came with the last one
							s.committed++
							s.end += n
						}
						c.FaultsFired++
						return // this task's process "died" with the disk
					}
					if !firedArm {
						fail = engine.Failf("C07.wfail.spurious", step, "%s: Marshal failed (%v) although no fault fired", what, err)
						return
					}
					c.FaultsFired++
					st.Inc("fault.fired.disk.fail")
					if cause(err) != simio.ErrInjected {
						fail = engine.Failf("C07.wfail.error", step, "%s: Marshal must return the writer's error, got %v", what, err)
						return
					}
					// the idiomatic client: rewind by the reported count, retry once
					if _, e := sw.Seek(-n, io.SeekCurrent); e != nil {
						fail = engine.Failf("C07.crash.rewind", step, "%s: Seek(-%d, SeekCurrent) after a failed Marshal: %v", what, n, e)
						return
					}
					st.Inc("probe.C07.client_rewound_and_retried")
				}
			}
		})
	}
	if !sch.Run() {
		panic(engine.HarnessError{Msg: "frames-faults/crash: deadlock"})
	}
	if fail != nil {
		return fail
	}
	if disk.Crashed {
		st.Inc("fault.fired.disk.crash")
		if disk.Fired["disk.crash_torn"] > 0 {
			st.Inc("fault.fired.disk.crash_torn")
		}
	}
	if len(cp.Writers) > 1 {
		st.Interleaving(sch.InterleavingHash())
	}
	// ---- recovery
	st.Inc("fault.configured.tail." + cp.Tail)
	for wi, w := range cp.Writers {
		s := ws[wi]
		// the section's own high-water mark
		hw := int64(0)
		for _, rc := range disk.Log {
			if rc.Task == wi && len(rc.Data) > 0 {
				if e := rc.Off + int64(len(rc.Data)) - w.Off; e > hw {
					hw = e
				}
			}
		}
		img := disk.Bytes(w.Off, int(hw))
		switch cp.Tail {
		case "zeros":
			img = append(img, make([]byte, cp.TailLen)...)
		case "garbage":
			g := make([]byte, cp.TailLen)
			engine.Fill(g, engine.H(uint64(wi), uint64(cp.TailLen)), 5)
			img = append(img, g...)
		}
		stream := simio.NewStream(img, cp.Policy)
		pos := 0
		for i := 0; i < len(s.frames)+4; i++ {
			step := 50000 + wi*1000 + i
			var spec MsgSpec
			if i < len(s.frames) {
				spec = s.frames[i].spec
			} else {
				spec = s.frames[0].spec
			}
			msg := spec.Empty()
			m := modelUnmarshal(img[pos:])
			before := stream.Pos
			stream.BeginCall()
			c.Status.SetStep(uint64(step), 1)
			n, ver, err, pan := callUnmarshal(stream, msg)
			c.Status.SetStep(uint64(step), 0)
			c.LibCalls++
			consumed := int64(stream.Pos - before)
			c.Ev(wi, "recover", int64(i), n, consumed)
			what := fmt.Sprintf("recovery of writer %d, call %d at section offset %d (tail=%s, %d frames committed, high water %d)", wi, i, pos, cp.Tail, s.committed, hw)
			if pan != nil {
				if _, ok := pan.(simio.LivenessAbort); ok {
					return livenessOrPanic("C07.recover", step, pan, what)
				}
				return engine.Failf("C07.normal_return", step, "%s: Unmarshal panicked: %v", what, pan)
			}
			if i < s.committed {
				// frames whose last byte was accepted before the crash come back first, in order, equal
				if err != nil || n != int64(len(s.frames[i].frame)) || consumed != n || !verOK(ver, spec.WantVersions()) || !spec.SameContent(msg) {
					return engine.Failf("C07.recover.committed", step, "%s: committed frame %d was not recovered intact: (n=%d, ver=%q, err=%v, consumed=%d), frame is %d bytes", what, i, n, ver, err, consumed, len(s.frames[i].frame))
				}
				st.Inc("probe.C07.committed_frame_recovered")
			} else {
				if f := checkAgainstModel("C07.recover", step, m, n, err, consumed, what); f != nil {
					return f
				}
				if m.complete {
					st.Inc("probe.C07.torn_frame_completed_by_tail")
				}
			}
			if !m.complete {
				break
			}
			pos += int(m.n)
		}
		st.Inc("fault.fired.tail." + cp.Tail)
	}
	st.State(engine.HashU64(0, uint64(disk.Accepted), disk.Hash()))
	return nil
}

func shrinkCrash(p *FaultsPlan) []engine.Plan {
	var out []engine.Plan
	clone := func() *FaultsPlan {
		b, _ := json.Marshal(p)
		var q FaultsPlan
		_ = json.Unmarshal(b, &q)
		return &q
	}
	cp := p.Crash
	if len(cp.Writers) > 1 {
		for i := range cp.Writers {
			q := clone()
			q.Crash.Writers = append(q.Crash.Writers[:i], q.Crash.Writers[i+1:]...)
			out = append(out, q)
		}
	}
	if cp.Sched.Mode != "seq" {
		q := clone()
		q.Crash.Sched = engine.Schedule{Mode: "seq"}
		out = append(out, q)
	}
	if cp.CrashAfter >= 0 {
		q := clone()
		q.Crash.CrashAfter = -1
		out = append(out, q)
	}
	if cp.Tail != "eof" {
		q := clone()
		q.Crash.Tail = "eof"
		out = append(out, q)
	}
	if cp.Policy.Kind != "whole" {
		q := clone()
		q.Crash.Policy = simio.ChunkPolicy{Kind: "whole"}
		out = append(out, q)
	}
	for wi, w := range cp.Writers {
		if len(w.Msgs) > 1 {
			for i := range w.Msgs {
				q := clone()
				qw := &q.Crash.Writers[wi]
				qw.Msgs = append(qw.Msgs[:i], qw.Msgs[i+1:]...)
				if i < len(qw.Faults) {
					qw.Faults = append(qw.Faults[:i], qw.Faults[i+1:]...)
				}
				out = append(out, q)
			}
		}
		for i, f := range w.Faults {
			if f.Budget >= 0 {
				q := clone()
				q.Crash.Writers[wi].Faults[i].Budget = -1
				out = append(out, q)
			}
		}
		for i, m := range w.Msgs {
			if m.Len > 0 {
				q := clone()
				q.Crash.Writers[wi].Msgs[i].Len = m.Len / 2
				out = append(out, q)
			}
			if m.Versioned {
				q := clone()
				q.Crash.Writers[wi].Msgs[i].Versioned, q.Crash.Writers[wi].Msgs[i].VerHex = false, ""
				out = append(out, q)
			}
		}
		if w.Off != 0 && len(cp.Writers) == 1 {
			q := clone()
			q.Crash.Writers[wi].Off = 0
			out = append(out, q)
		}
	}
	return out
}
