//go:build verifyield

package scen

import (
	"runtime"
	"time"

	"github.com/openacid/low/verifhook"

	"verifsim/engine"
)

// YieldBuild reports whether the library under test was rewritten with
// statement-level yields (check.sh: build_yield).
const YieldBuild = true

// setSimHooks hands the rewritten library over to a scheduler: statement-level
// yields, "cannot proceed" points of the cooperative sync stand-ins, and go
// statements (each becomes a task of that scheduler). nil clears the hooks.
// stride > 1: only every stride-th statement is a scheduling point; stride < 0:
// none is.
func setSimHooks(sch *engine.Sched, stride int) {
	if sch == nil {
		verifhook.Y, verifhook.B, verifhook.G = nil, nil, nil
		return
	}
	verifhook.Y = func() { sch.Current().Yield() }
	if stride < 0 {
		// a sequential phase: no statement is a scheduling point (a task gives way
		// only where it cannot proceed, or when it ends)
		verifhook.Y = nil
	}
	if stride > 1 {
		n := 0 // one task runs at a time: a plain counter, the same in every execution
		verifhook.Y = func() {
			n++
			if n%stride == 0 {
				sch.Current().Yield()
			}
		}
	}
	var fruitlessSince time.Time
	verifhook.B = func() {
		if sch.Current().Block() {
			fruitlessSince = time.Time{}
			return
		}
		// No other task can run. What the task waits for may be held by a
		// goroutine that is NOT a task (a finalizer of the code under test): give
		// the Go runtime a chance; only when nothing has changed for 10 s of real
		// time is it a deadlock (the clock bounds patience, like the watchdogs; it
		// decides nothing else).
		if fruitlessSince.IsZero() {
			fruitlessSince = time.Now()
		} else if time.Since(fruitlessSince) > 10*time.Second {
			sch.Current().GiveUp()
		}
		runtime.Gosched()
	}
	verifhook.G = func(f func()) {
		sch.SpawnLive(func(tk *engine.Task) {
			enablePanicOnFault()
			tk.InCall = true // a goroutine of the library runs library code only
			f()
		})
	}
}
