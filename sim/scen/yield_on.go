//go:build verifyield

package scen

import "github.com/openacid/low/verifhook"

// YieldBuild reports whether the library under test was rewritten with
// statement-level yields (check.sh: build_yield).
const YieldBuild = true

func setYieldHook(f func()) { verifhook.Y = f }
