package scen

import (
	"fmt"
	"runtime"
	"strings"
	"time"
	"unsafe"

	"verifsim/engine"
)

// Readers is the C19 scenario; yield selects the flavour.
type Readers struct{ yield bool }

func (r Readers) Name() string {
	if r.yield {
		return "readers-y"
	}
	return "readers-r"
}
func (Readers) Property() string { return "C19" }

func (r Readers) Generate(seed uint64, tier string) engine.Plan {
	rare := ""
	if i := strings.LastIndex(tier, "/rare"); i >= 0 {
		rare = tier[i+1:]
	}
	p := genReaders(seed, r.yield, strings.HasSuffix(tier, "/cold"), deep(tier), rare)
	if r.yield {
		rr := engine.NewPRNG(seed ^ 0x1234)
		p.Sched.Den = rr.PickInt(2, 4, 8, 16, 64)
	}
	return p
}

func (Readers) Decode(raw []byte) (engine.Plan, error) { return decodeReaders(raw) }
func (Readers) Shrink(p engine.Plan) []engine.Plan     { return shrinkReaders(p) }

func (r Readers) Execute(pl engine.Plan, c *engine.RunCtx) *engine.Failure {
	p := pl.(*ReadersPlan)
	if r.yield != (YieldBuild && ArenaReadOnly) {
		panic(engine.HarnessError{Msg: "scenario " + r.Name() + " executed by the wrong binary flavour"})
	}
	if !r.yield && !engine.RaceBuild {
		panic(engine.HarnessError{Msg: "readers-r needs the -race binary"})
	}
	st := c.Stats
	c.MaxEvents = 1 << 22
	enablePanicOnFault()
	padKeep = applyPad(p.Pad)
	w := buildWorld(p.World, nil)
	defer w.arena.free()
	snap0 := w.snapshot()
	w2 := buildWorld(p.World, w)
	defer w2.arena.free()
	snap2 := w2.snapshot()
	// C19.tables: a table may legitimately be FILLED on first use (e.g. behind a
	// sync.Once); what must not happen is a change after that. The reference
	// hash is therefore taken after the first complete phase (both phases run
	// the same operations) and compared at the end of the run.
	var tab0 uint64
	pz := p.Poisons
	if len(pz) < 3 {
		pz = []uint64{0, 1<<63 - 1, 8}
	}
	opName := func(t, i int) string {
		op := p.Tasks[t][i]
		return fmt.Sprintf("task %d op %d %s(obj=%d a=%d b=%d c=%d)", t, i, op.Fn, op.Obj, op.A, op.B, op.C)
	}
	faultFail := func(step int, t, i int, o *rOutcome) *engine.Failure {
		if o.guard {
			return engine.Failf("C19.overrun", step, "%s accessed memory BEYOND THE END of one of its arguments (the argument ends at an inaccessible guard page): what lies there is not an argument, so the result depends on it or a neighbour's writes conflict with the read: %v", opName(t, i), o.pan)
		}
		return engine.Failf("C19.write", step, "%s wrote to a read-only shared input at arena offset %#x: %v", opName(t, i), o.fault-w.arena.baseAddr(), o.pan)
	}
	ref := make([][]rOutcome, len(p.Tasks))
	// ---- phase 1: sequential reference, twice (two poison patterns, two call shapes)
	phase1 := func() *engine.Failure {
		for t, ops := range p.Tasks {
			ref[t] = make([]rOutcome, len(ops))
			for i, op := range ops {
				step := t*1000 + i
				c.Status.SetStep(uint64(step), 1)
				a := execOp(w, op, false, pz[0])
				b := a
				if !p.World.HugeMasks { // (a Decode of a huge tree is costly: once per phase)
					b = execOp(w2, op, true, pz[1]) // the twin: equal values, different surroundings
				}
				c.Status.SetStep(uint64(step), 0)
				c.LibCalls += 2
				if a.alias || b.alias {
					return engine.Failf("C19.result_aliases_bytes", step, "%s returned a STRING that shares memory with a []byte argument: the result is not a value of its arguments (it changes when the caller reuses its buffer, and a concurrent reader of the string conflicts with the buffer's owner)", opName(t, i))
				}
				if a.fault != 0 {
					return faultFail(step, t, i, &a)
				}
				if b.fault != 0 {
					return faultFail(step, t, i, &b)
				}
				if (strings.HasPrefix(op.Fn, "sigbits.Huge") && w.huge != nil) || (strings.HasPrefix(op.Fn, "bitmap.Huge") && w.hugeWords != nil) {
					// the number of processors is not an argument either
					old := runtime.GOMAXPROCS(1)
					c1 := execOp(w, op, false, pz[0])
					runtime.GOMAXPROCS(4)
					c4 := execOp(w, op, false, pz[0])
					runtime.GOMAXPROCS(old)
					c.LibCalls += 2
					st.Inc("probe.C19.huge_input_under_two_GOMAXPROCS")
					if c1.hash != c4.hash || c1.hash != a.hash {
						return engine.Failf("C19.ambient", step, "%s on a huge input (%d keys / %d words): the result depends on GOMAXPROCS (1 vs 4 vs %d processors give different results): it does not depend only on its arguments", opName(t, i), len(w.huge), len(w.hugeWords), old)
					}
				}
				if a.hash != b.hash {
					return engine.Failf("C19.ambient", step, "%s: the result depends on something other than its arguments: with stack poison %#x (direct call) it gave %s; with poison %#x, called through a function value on EQUAL arguments stored elsewhere (other bytes behind len, every other slice with cap == len) it gave %s", opName(t, i), pz[0], a.describe(), pz[1], b.describe())
				}
				ref[t][i] = a
				st.Inc("op." + op.Fn)
				if a.pan != nil {
					st.Inc("probe.C19.op_panics_sequentially_too")
				}
			}
		}
		return nil
	}
	if !p.RefAfter {
		if f := r.sequentially(c, phase1); f != nil {
			return f
		}
		tab0 = tablesHash()
	} else {
		st.Inc("probe.C19.concurrent_phase_before_reference")
	}
	// ---- phase 2: simulated concurrent execution
	outs := make([][]rOutcome, len(p.Tasks))
	sch := engine.NewSched(p.Sched)
	for t := range p.Tasks {
		t := t
		ops := p.Tasks[t]
		outs[t] = make([]rOutcome, len(ops))
		sch.Spawn(func(tk *engine.Task) {
			enablePanicOnFault()
			for i := range ops {
				tk.Yield()
				c.Status.SetStep(uint64(100000+t*1000+i), 1)
				tk.InCall = true
				outs[t][i] = execOp(w, ops[i], i&1 == 1, pz[2])
				tk.InCall = false
				c.Status.SetStep(uint64(100000+t*1000+i), 0)
			}
		})
	}
	if r.yield && p.GCPoints > 0 {
		sch.Spawn(func(tk *engine.Task) {
			for i := 0; i < p.GCPoints; i++ {
				tk.Yield()
				forceGC()
				st.Inc("fault.fired.gc.forced_collection_with_finalizers")
				c.FaultsFired++
			}
		})
	}
	c.Tasks = len(p.Tasks)
	if r.yield {
		setSimHooks(sch, p.YieldStride)
	}
	ok := sch.Run()
	setSimHooks(nil, 0)
	if !ok {
		if sch.Blocks() > 0 {
			return engine.Failf("C19.deadlock", 100000, "under the simulated schedule every remaining task waits for a lock, a Once or a WaitGroup of the library that no runnable task can release: concurrent readers deadlock")
		}
		panic(engine.HarnessError{Msg: "readers: deadlock"})
	}
	if f := livePanic(sch, 100000); f != nil {
		return f
	}
	st.Add("probe.C19.library_goroutines_run_as_simulated_tasks", int64(sch.NumTasks()-len(p.Tasks)))
	st.Add("probe.C19.task_gave_way_at_a_library_lock_or_waitgroup", int64(sch.Blocks()))
	c.Switches = sch.NumSwitches()
	st.Interleaving(sch.InterleavingHash())
	st.Add("probe.C19.context_switches", int64(sch.NumSwitches()))
	st.Add("probe.C19.switches_inside_a_library_call", int64(sch.SwitchesInCall))
	st.Add("probe.C19.yield_points", int64(sch.Yields()))
	if p.RefAfter {
		tab0 = tablesHash()
		if f := r.sequentially(c, phase1); f != nil {
			return f
		}
	}
	// ---- phase 3: audit
	for t, ops := range p.Tasks {
		for i := range ops {
			step := 100000 + t*1000 + i
			o := &outs[t][i]
			c.LibCalls++
			c.Ev(t, "op", int64(i), int64(o.hash>>1))
			if o.fault != 0 {
				return faultFail(step, t, i, o)
			}
			if o.hash != ref[t][i].hash {
				return engine.Failf("C19.equal", step, "%s: under the simulated schedule its result differed from the sequential one (contents now: %s vs %s)", opName(t, i), o.describe(), ref[t][i].describe())
			}
		}
	}
	for t := range p.Tasks {
		if pv := schTaskPanic(sch, t); pv != nil {
			panic(engine.HarnessError{Msg: fmt.Sprintf("task %d body panicked outside a library call: %v", t, pv)})
		}
	}
	for t, ops := range p.Tasks {
		for i := range ops {
			step := 100000 + t*1000 + i
			if ref[t][i].contentHash() != ref[t][i].hash {
				return engine.Failf("C19.retain", step, "%s: the result returned in the sequential phase changed afterwards (it aliases memory a later call overwrote): now %s", opName(t, i), ref[t][i].describe())
			}
			if outs[t][i].contentHash() != outs[t][i].hash {
				return engine.Failf("C19.retain", step, "%s: the result returned under the schedule changed afterwards (it aliases memory a later call overwrote): now %s", opName(t, i), outs[t][i].describe())
			}
		}
	}
	// ---- phase 4: the OWNER of a result may write into it. Every result slice
	// that does not share memory with an input is overwritten with junk, then
	// every operation is executed once more: a result that shares memory with
	// package state (a table row handed out as a result) or with another result
	// makes the later calls differ.
	// a slice is contiguous: whether it shares memory with an input is decided
	// by its first and last element
	scribble := func(o *rOutcome) {
		if n := len(o.words); n > 0 && !w.arena.contains(uintptr(unsafe.Pointer(&o.words[0]))) && !w.arena.contains(uintptr(unsafe.Pointer(&o.words[n-1]))) {
			for i := range o.words {
				o.words[i] = 0xeeeeeeeeeeee0000 | uint64(i&0xffff) // idempotent: two results sharing memory must not cancel out
			}
		}
		if n := len(o.i32s); n > 0 && !w.arena.contains(uintptr(unsafe.Pointer(&o.i32s[0]))) && !w.arena.contains(uintptr(unsafe.Pointer(&o.i32s[n-1]))) {
			for i := range o.i32s {
				o.i32s[i] = 0x6e6e0000 | int32(i&0xffff)
			}
		}
		if n := len(o.bytes); n > 0 && !w.arena.contains(uintptr(unsafe.Pointer(&o.bytes[0]))) && !w.arena.contains(uintptr(unsafe.Pointer(&o.bytes[n-1]))) {
			for i := range o.bytes {
				o.bytes[i] = 0xee
			}
		}
		for _, b := range o.bss {
			if n := len(b); n > 0 && !w.arena.contains(uintptr(unsafe.Pointer(&b[0]))) && !w.arena.contains(uintptr(unsafe.Pointer(&b[n-1]))) {
				for i := range b {
					b[i] = 0xee
				}
			}
		}
	}
	refHash := make([][]uint64, len(p.Tasks))
	for t := range p.Tasks {
		refHash[t] = make([]uint64, len(p.Tasks[t]))
		for i := range p.Tasks[t] {
			refHash[t][i] = ref[t][i].hash
		}
	}
	for t := range p.Tasks {
		for i := range p.Tasks[t] {
			scribble(&ref[t][i])
			scribble(&outs[t][i])
		}
	}
	if f := r.sequentially(c, func() *engine.Failure {
		for t, ops := range p.Tasks {
			if p.World.HugeMasks {
				break
			}
			for i, op := range ops {
				step := 200000 + t*1000 + i
				c.Status.SetStep(uint64(step), 1)
				again := execOp(w, op, false, pz[0])
				c.Status.SetStep(uint64(step), 0)
				c.LibCalls++
				if again.fault != 0 {
					return faultFail(step, t, i, &again)
				}
				if again.hash != refHash[t][i] {
					return engine.Failf("C19.result_shared", step, "%s: after the owners of earlier results wrote into them, the same call returns something else (%s): some result shares memory with package state or with another call's result", opName(t, i), again.describe())
				}
			}
		}
		return nil
	}); f != nil {
		return f
	}
	if w.snapshot() != snap0 || w2.snapshot() != snap2 {
		return engine.Failf("C19.snapshot", 999999, "a shared input (bitmap, index, key, encoding) was modified during the run")
	}
	if tablesHash() != tab0 {
		return engine.Failf("C19.tables", 999999, "a package-level table (Mask/RMask/MaskUpto/RMaskUpto/Bit/RBit, BitWord, select lookup, idxToPath) changed after initialisation")
	}
	st.State(engine.HashU64(0, snap0, sch.InterleavingHash()))
	return nil
}

// sequentially runs a sequential phase. In the -race flavour that is a plain
// call. In the statement-yield flavour the phase runs as the one planned task
// of a scheduler in mode "seq": goroutines the library starts are then tasks
// of that scheduler too (they run when the phase's task cannot proceed, or
// after it), so that the sequential reference is as repeatable as the
// concurrent phase — no real goroutine of the library ever runs.
func (r Readers) sequentially(c *engine.RunCtx, phase func() *engine.Failure) *engine.Failure {
	if !r.yield {
		return phase()
	}
	var f *engine.Failure
	sch := engine.NewSched(engine.Schedule{Mode: "seq"})
	sch.Spawn(func(tk *engine.Task) {
		enablePanicOnFault()
		f = phase()
	})
	setSimHooks(sch, -1)
	ok := sch.Run()
	setSimHooks(nil, 0)
	if pv := sch.TaskPanic(0); pv != nil {
		if he, isHE := pv.(engine.HarnessError); isHE {
			panic(he)
		}
		panic(engine.HarnessError{Msg: fmt.Sprintf("a sequential phase panicked outside a library call: %v", pv)})
	}
	if !ok {
		if sch.Blocks() > 0 {
			return engine.Failf("C19.deadlock", 0, "a single caller waits for a lock, a Once or a WaitGroup of the library that nothing can release: the call never returns")
		}
		panic(engine.HarnessError{Msg: "readers: deadlock in a sequential phase"})
	}
	if f != nil {
		return f
	}
	c.Stats.Add("probe.C19.library_goroutines_run_as_simulated_tasks", int64(sch.NumTasks()-1))
	return livePanic(sch, 0)
}

// livePanic: a goroutine STARTED BY THE LIBRARY (run as a simulated task)
// panicked; in a real process that kills the program.
func livePanic(sch *engine.Sched, step int) *engine.Failure {
	for t := 0; t < sch.NumTasks(); t++ {
		if !sch.TaskLive(t) {
			continue
		}
		if pv := sch.TaskPanic(t); pv != nil {
			if he, ok := pv.(engine.HarnessError); ok {
				panic(he)
			}
			return engine.Failf("C19.abort", step, "a goroutine started by the library panicked (a real process dies): %v", pv)
		}
	}
	return nil
}

// forceGC runs a garbage collection and waits until the finalizers it queued
// have run (a sentinel's finalizer is queued last), for at most a second.
func forceGC() {
	done := make(chan struct{})
	s := new([64]byte)
	runtime.SetFinalizer(s, func(*[64]byte) { close(done) })
	s = nil
	runtime.GC()
	select {
	case <-done:
	case <-time.After(time.Second):
	}
}

var padKeep [][]byte

// applyPad shifts the heap layout by allocating pad odd-sized blocks.
func applyPad(pad int) [][]byte {
	out := make([][]byte, 0, pad)
	for i := 0; i < pad; i++ {
		b := make([]byte, 8*i+24+i%7)
		b[0] = byte(i)
		out = append(out, b)
	}
	return out
}

// Perturb returns a copy of the plan with another layout pad (used by the
// supervisor when a race report of a worker does not reproduce in a fresh
// process with the recorded layout).
func (Readers) Perturb(pl engine.Plan, k int) engine.Plan {
	p := pl.(*ReadersPlan)
	q := *p
	q.Pad = k
	return &q
}

func schTaskPanic(s *engine.Sched, t int) interface{} { return s.TaskPanic(t) }

// raceDeath classifies a -race worker death: a ThreadSanitizer report whose
// stacks include a frame of the five packages is C19.race; any other report is
// a harness defect (exit 2).
func raceDeath(kind string, exitCode int, stderr string) string {
	if kind == "mem" {
		return "C19.abort"
	}
	if kind == "hang" {
		return "C19.hang"
	}
	if strings.Contains(stderr, "WARNING: DATA RACE") {
		for _, pkg := range []string{"openacid/low/bitmap", "openacid/low/bmtree", "openacid/low/bitstr", "openacid/low/bitword", "openacid/low/sigbits"} {
			if strings.Contains(stderr, pkg+".") || strings.Contains(stderr, pkg+"/") {
				return "C19.race"
			}
		}
		return ""
	}
	if strings.Contains(stderr, "fatal error:") {
		return "C19.abort"
	}
	return ""
}

func init() {
	common := "plan = a shared world (3-6 bitmaps of 1-40 words in six shapes with all their rank/select indexes, 2-4 ascending key lists over {00 a b 80 ff} or all bytes with shared prefixes up to 20 bytes and their bitstr encodings / bitword words / SigBits, 2-4 level masks of height <= 8 with their paths, 1-3 joined word arrays) + 2-4 tasks x 5-40 operations drawn from a 48-function catalogue (arguments valid by construction, plus the one documented refusal: Select32 with an i its index does not cover, whose panic value is an outcome like any other; a run focuses on 1-8 functions and 3 objects; a third of the operations repeat an earlier query, a quarter repeat another task's) + a hashed schedule + 3 stack-poison patterns. Three phases: sequential reference (each op twice: two poisons, direct call vs call through a function value on a TWIN copy of the inputs with other surroundings and cap == len), simulated concurrent execution, audit (results equal, retained results intact, inputs and package tables unchanged, results rewritten by their owners). Placed at run index % 1024 = 200/300/400: three trees of height 20, a bitmap of 2^16..2^17 words, 2^18..300000 keys. "
	Register(&Info{
		Sc:   Readers{yield: false},
		Rule: common + "R flavour: -race binary, one task at a time, hand-off by raw pipe syscalls in //go:norace code so ThreadSanitizer sees no happens-before edge between tasks; a report with a frame in the five packages is C19.race. Non-trivial: >= 2 tasks AND >= 1 context switch. Distinct: by plan hash (set).",
		NonTrivial: func(c *engine.RunCtx) bool {
			return c.Tasks >= 2 && c.Switches >= 1
		},
		DeathInvariant:  raceDeath,
		QuickRuns:       2400,
		ThoroughSeconds: 600,
		ProcsPerWorker:  8,
		Real:            []string{"github.com/openacid/low/{bitmap,bmtree,bitstr,bitword,sigbits} compiled with -race from /repo's working tree", "Go race detector (ThreadSanitizer) used as an oracle"},
		Stub:            append([]string{"task hand-off: raw read(2)/write(2) on pipes (invisible to the race detector)", "stack poisoner"}, commonStub...),
		Build:           "race",
	})
	Register(&Info{
		Sc:   Readers{yield: true},
		Rule: common + "Y flavour: the five packages rewritten (scratch copy) with a yield before every statement; the schedule switches tasks inside library calls; sync.Mutex/RWMutex/Once/WaitGroup replaced by cooperative stand-ins and go statements by simulated tasks (the sequential phases run under the scheduler too); shared inputs live in a read-only mapping so any write faults (C19.write). Non-trivial: >= 2 tasks AND >= 1 context switch. Distinct: by plan hash (set).",
		NonTrivial: func(c *engine.RunCtx) bool {
			return c.Tasks >= 2 && c.Switches >= 1
		},
		QuickRuns:         6400,
		ThoroughSeconds:   600,
		ProcsPerWorker:    8,
		AddressSpaceLimit: 8 << 30,
		Real:              []string{"github.com/openacid/low/{bitmap,bmtree,bitstr,bitword,sigbits}: the real source with a verifhook.Yield() call inserted before every statement by cmd/yieldinject (go/ast rewrite of a scratch copy; /repo untouched)"},
		Stub:              append([]string{"read-only arena (mmap + mprotect) holding every shared input", "stack poisoner", "sync.Mutex/RWMutex/Once/WaitGroup of the code under test: cooperative stand-ins over the real primitives (package verifhook in the scratch copy)", "go statements of the code under test: tasks of the simulated scheduler"}, commonStub...),
		Build:             "yield",
	})
}
