//go:build verif

package scen

import (
	"github.com/openacid/low/bitmap"
	"github.com/openacid/low/bmtree"
)

// HooksBuilt reports whether /repo was compiled with its `verif` hooks.
const HooksBuilt = true

func setReclaimThreshold(bits int64) int64 { return bitmap.VerifSetReclaimThreshold(bits) }
func selectTableCopy() []byte              { return bitmap.VerifTableBytes() }
func idxToPathCopy() []uint64              { return bmtree.VerifTableWords() }
