package scen

import (
	"strings"

	"verifsim/engine"
)

// ---------------------------------------------------------------------------
// C12 — second leg "builder-hist-r": the same histories, model and probes as
// builder-hist, executed by the -race binary.
//
// The unchanged functions behind C12 start no goroutine, and a single-owner
// history has no schedule. But a change may make them parallel (split a large
// OfMany, Of, Extend or ToArray over goroutines); in the plain build such
// goroutines are real and a lost update shows in a few per cent of executions
// on several processors, i.e. not reliably and not replayably. ThreadSanitizer
// decides it independently of timing: two goroutines of the code under test
// that touch the same word without a happens-before edge are reported whatever
// the interleaving was (C12.race). Inputs are biased to what such a change
// would parallelise: several dense segments of 2^13..2^16 positions whose
// boundaries are not multiples of 64.
// ---------------------------------------------------------------------------

type BuilderR struct{ Builder }

func (BuilderR) Name() string { return "builder-hist-r" }

func (b BuilderR) Generate(seed uint64, tier string) engine.Plan {
	// (the 256 MiB history of the plain leg is not repeated under the race
	// detector, whose shadow memory multiplies it)
	tier = strings.TrimSuffix(tier, "/rare1")
	r := engine.NewPRNG(seed ^ 0x7ace)
	if !r.Chance(1, 3) {
		return b.Builder.Generate(seed, tier)
	}
	p := &BuilderPlan{ProbeSeed: r.Uint64()}
	p.Prealloc = int32(r.PickInt64(0, 0, 64, 1<<16))
	nseg := 2 + r.Intn(4)
	for i := 0; i < nseg; i++ {
		op := BOp{Op: "extend"}
		op.Size = int32(r.PickInt64(1<<13, 1<<14, 1<<15, 1<<15, 1<<16, 1<<16) + r.PickInt64(-1, 1, 7, 33, 63))
		step := int32(r.PickInt(1, 1, 2, 3))
		for q := int32(r.Intn(3)); q < op.Size; q += step {
			op.Pos = append(op.Pos, q)
		}
		p.Ops = append(p.Ops, op)
	}
	return p
}

// builderRaceDeath: a race-detector halt with a frame in package bitmap during
// a logged in-flight call is C12.race; any other race report is the harness's.
func builderRaceDeath(kind string, exitCode int, stderr string) string {
	switch kind {
	case "mem":
		return "C12.abort"
	case "hang":
		return "C12.hang"
	}
	if strings.Contains(stderr, "WARNING: DATA RACE") {
		if strings.Contains(stderr, "github.com/openacid/low/bitmap.") {
			return "C12.race"
		}
		return ""
	}
	if strings.Contains(stderr, "fatal error:") {
		return "C12.abort"
	}
	return ""
}

func init() {
	Register(&Info{
		Sc: BuilderR{},
		Rule: "the histories, model and probes of builder-hist executed by the -race binary; a third of the plans are 2-5 dense segments of 2^13..2^16 positions each with boundaries that are not multiples of 64 (what a change that parallelises Of/OfMany/Extend/ToArray would split). Goroutines the code under test starts are real here; ThreadSanitizer reports two of them touching one word without synchronisation whatever the timing (C12.race). " +
			"Non-trivial: the history has >= 2 mutating calls. Distinct: by hash of the plan JSON.",
		NonTrivial:      func(c *engine.RunCtx) bool { return c.HistoryLen >= 2 },
		DeathInvariant:  builderRaceDeath,
		QuickRuns:       320,
		ThoroughSeconds: 240,
		Real:            []string{"github.com/openacid/low/bitmap (NewBuilder, Builder.Extend, Builder.Set, Of, OfMany, ToArray, Get, Get1, SafeGet, SafeGet1) compiled with -race", "Go race detector (ThreadSanitizer) used as an oracle for goroutines the code under test may start"},
		Stub:            commonStub,
		Build:           "race",
	})
}
