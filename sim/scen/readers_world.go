package scen

import (
	"sort"

	"github.com/openacid/low/bitmap"
	"github.com/openacid/low/bitword"
	"github.com/openacid/low/sigbits"

	"verifsim/engine"
)

// ---------------------------------------------------------------------------
// C19 — the SHARED WORLD of scenario "readers" (DESIGN §4.6): bitmaps with all
// their indexes, ascending key lists with deep shared prefixes, bitstr
// encodings, level masks with their paths, joined word arrays. It is built by
// the plan before any task starts and is only ever READ afterwards.
//
// Every shared []uint64 / []int32 / []byte / string is allocated through an
// arena: the Go heap in the -race build, a private mapping that is made
// READ-ONLY after construction in the statement-yield build (so that any write
// by the library — even of the same value — faults).
// ---------------------------------------------------------------------------

type WorldSpec struct {
	// HugeKeys > 0: one additional ascending key list of that many 8-byte keys
	// (beyond the sizes at which an implementation might switch strategy, e.g.
	// split the work over GOMAXPROCS workers); only the sigbits functions run on it.
	HugeKeys int `json:"huge_keys,omitempty"`
	// HugeMasks: the level masks are replaced by three trees of height 20 (about
	// half a million stored nodes each): sizes at which Decode might keep what it
	// worked out for the next call. Only Decode runs on them.
	HugeMasks bool `json:"huge_masks,omitempty"`
	// HugeWords > 0: one additional sparse bitmap of that many words (2^16 and
	// more); only the whole-bitmap functions run on it.
	HugeWords int          `json:"huge_words,omitempty"`
	Bitmaps   []BitmapSpec `json:"bitmaps"`
	Keys      []KeySpec    `json:"keys"`
	Masks     []int32      `json:"masks"` // bmtree level masks (bitmapSize), height <= 8; the first one may be a full tree of height 10..12
	Joins     []JoinSpec   `json:"joins"`
}

type BitmapSpec struct {
	Shape  string `json:"shape"` // sparse | dense | allones | gaps | edges | half
	NWords int    `json:"nwords"`
	Seed   uint64 `json:"seed"`
}

type KeySpec struct {
	N        int    `json:"n"`
	Prefix   int    `json:"prefix"`   // length of the prefix shared by all keys
	Alphabet string `json:"alphabet"` // small | full
	Seed     uint64 `json:"seed"`
}

type JoinSpec struct {
	Width int    `json:"width"`
	N     int    `json:"n"`
	Seed  uint64 `json:"seed"`
}

type wBitmap struct {
	words    []uint64
	r64      []int32
	r64t     []int32
	r128     []int32
	s32      []int32
	s32r     []int32
	s32rRank []int32
	ones     int32
	pos      []int32 // ascending positions of the 1-bits (harness's own)
	// three consecutive sub-slices of pos (their capacity runs on into the next
	// one) and a size for each: arguments for OfMany
	segs  [][]int32
	sizes []int32
	// the positions with two inner elements swapped (the last one is still the
	// largest, which is all Of needs to size its result)
	unsorted []int32
	// a TailBitmap holding the same bits (only ever read by the tasks)
	tail *bitmap.TailBitmap
}

type wKeys struct {
	keys  []string
	bs    [][]byte // bitstr encodings, one per key
	kb    [][]byte // the keys as plain byte slices (for CmpUpto)
	sb    *sigbits.SigBits
	words [9][][]byte // bitword words per width (1,2,4,8), one slice per key
}

type wMask struct {
	mask    int32
	paths   []uint64
	bm      []uint64 // a bitmap over the stored nodes
	bmShort []uint64 // the same, cut short
}

type wJoin struct {
	width int32
	n     int32
	words []uint64
	subs  []uint64
}

type world struct {
	huge []string // the huge key list (nil if none); on the Go heap in both flavours
	// the huge bitmap (nil if none), on the Go heap in both flavours
	hugeWords []uint64
	bitmaps   []*wBitmap
	keys      []*wKeys
	masks     []*wMask
	joins     []*wJoin
	arena     *arena
	twin      bool // see arena_common.go
}

func genWorldSpec(r *engine.PRNG) WorldSpec {
	var w WorldSpec
	nb := 3 + r.Intn(4)
	for i := 0; i < nb; i++ {
		b := BitmapSpec{Seed: r.Uint64()}
		b.Shape = r.PickStr("sparse", "dense", "allones", "gaps", "edges", "half", "alt", "zero", "byteedges")
		b.NWords = r.PickInt(1, 2, 3, 4, 5, 8, 17, 40)
		if r.Chance(1, 40) {
			b.NWords = r.PickInt(1023, 1024, 1025, 2500) // beyond 2^16 bits
		}
		w.Bitmaps = append(w.Bitmaps, b)
	}
	// the huge-input classes (HugeKeys, HugeWords, HugeMasks) are placed at fixed
	// run indices of every batch, see genReaders; here only rarely by chance
	if r.Chance(1, 2000) {
		w.HugeKeys = r.PickInt(1<<18, 1<<18+1, 300000)
	} else if r.Chance(1, 2000) {
		w.HugeWords = r.PickInt(1<<16, 1<<16+1, 1<<17, 100000)
	}
	nk := 2 + r.Intn(3)
	for i := 0; i < nk; i++ {
		k := KeySpec{Seed: r.Uint64(), N: 2 + r.Intn(29)}
		k.Prefix = r.PickInt(0, 1, 7, 8, 9, 17, 20)
		k.Alphabet = r.PickStr("small", "small", "full")
		w.Keys = append(w.Keys, k)
	}
	nm := 2 + r.Intn(3)
	for i := 0; i < nm; i++ {
		h := uint(r.Intn(9)) // height 0..8
		m := int32(1)<<h | int32(r.Uint64()&uint64((int32(1)<<h)-1))
		switch r.Intn(4) {
		case 0:
			m = int32(1)<<(h+1) - 1 // full tree
		case 1:
			m = int32(1) << h // leaf only
		}
		w.Masks = append(w.Masks, m)
	}
	if r.Chance(1, 6) {
		// a WIDE tree first (full, height 10..12: 2047..8191 paths), so that
		// AllPaths can be asked for exactly 1000, 1024, 2048, 4096 ... paths: the
		// sizes at which "the buffer happened to be exactly full" paths are taken
		w.Masks[0] = int32(1)<<uint(r.PickInt(11, 11, 12, 13)) - 1
	}
	nj := 1 + r.Intn(3)
	for i := 0; i < nj; i++ {
		w.Joins = append(w.Joins, JoinSpec{Width: r.PickInt(1, 2, 4, 8, 16, 32, 64), N: 1 + r.Intn(40), Seed: r.Uint64()})
	}
	return w
}

func buildBitmapWords(s BitmapSpec) []uint64 {
	out := make([]uint64, s.NWords)
	for i := range out {
		h := engine.H(s.Seed, uint64(i))
		switch s.Shape {
		case "sparse":
			if h%3 == 0 {
				out[i] = 1 << ((h >> 8) % 64)
			}
			if h%7 == 0 {
				out[i] |= 1 << ((h >> 16) % 64)
			}
		case "dense":
			out[i] = h | engine.H(s.Seed, uint64(i), 1)
		case "allones":
			out[i] = ^uint64(0)
		case "gaps": // empty words between ones
			if i%3 == 0 {
				out[i] = h
			}
		case "edges":
			out[i] = 1 | 1<<63
			if h%4 == 0 {
				out[i] = 0
			}
		case "alt":
			out[i] = 0xaaaaaaaaaaaaaaaa
			if h%5 == 0 {
				out[i] = 0x5555555555555555
			}
		case "zero":
			out[i] = 0
		case "byteedges": // bits at the edges of bytes
			out[i] = 0x8100000000000081 | (h & 0x0080010000800100)
		case "half":
			out[i] = h & 0xffffffff00000000
			if i%2 == 1 {
				out[i] = h & 0x00000000ffffffff
			}
		}
	}
	return out
}

func buildKeys(s KeySpec) []string {
	alpha := []byte{0x00, 'a', 'b', 0x80, 0xff}
	pre := make([]byte, s.Prefix)
	for i := range pre {
		pre[i] = alpha[engine.H(s.Seed, 1, uint64(i))%uint64(len(alpha))]
	}
	set := map[string]bool{}
	for i := 0; len(set) < s.N && i < 10*s.N+20; i++ {
		h := engine.H(s.Seed, 2, uint64(i))
		l := int(h % 12)
		k := append([]byte(nil), pre...)
		for j := 0; j < l; j++ {
			hj := engine.H(s.Seed, 3, uint64(i), uint64(j))
			if s.Alphabet == "full" {
				k = append(k, byte(hj))
			} else {
				k = append(k, alpha[hj%uint64(len(alpha))])
			}
		}
		set[string(k)] = true
	}
	keys := make([]string, 0, len(set))
	for k := range set {
		keys = append(keys, k)
	}
	sort.Strings(keys)
	return keys
}

// ---- harness-own construction of the derived objects ------------------------
//
// The world is built WITHOUT calling the functions under test: a library call
// made here would run on the main goroutine before any task exists and would
// "warm" whatever that function initialises lazily on first use, hiding a
// first-use race in a cold process. (sigbits.New is the one exception: a
// SigBits has unexported fields and cannot be built otherwise.) These are
// direct transcriptions of the documented meaning of each object.

func ownIndexRank64(words []uint64, trailing bool) []int32 {
	out := make([]int32, 0, len(words)+1)
	n := int32(0)
	for _, w := range words {
		out = append(out, n)
		n += int32(popcount(w))
	}
	if trailing {
		out = append(out, n)
	}
	return out
}

func ownIndexRank128(words []uint64) []int32 {
	out := make([]int32, 0, len(words)/2+1)
	n := int32(0)
	for i := 0; i < len(words); i += 2 {
		out = append(out, n)
		n += int32(popcount(words[i]))
		if i+1 < len(words) {
			n += int32(popcount(words[i+1]))
		}
	}
	if len(words)%2 == 0 {
		out = append(out, n)
	}
	return out
}

func popcount(w uint64) int {
	c := 0
	for w != 0 {
		w &= w - 1
		c++
	}
	return c
}

func ownIndexSelect32(pos []int32) []int32 {
	out := []int32{}
	for i := 0; i < len(pos); i += 32 {
		out = append(out, pos[i])
	}
	return out
}

// ownBitStr encodes the first `to` bits of s: the bytes that hold them, the last
// one masked, followed by the mask byte; an empty aligned range is {0xff}.
func ownBitStr(s string, to int32) []byte {
	if to == 0 {
		return []byte{0xff}
	}
	nb := int(to+7) / 8
	out := make([]byte, nb+1)
	copy(out, s[:nb])
	mask := byte(0xff)
	if r := uint(to & 7); r != 0 {
		mask = ^byte(0xff >> r)
	}
	out[nb-1] &= mask
	out[nb] = mask
	return out
}

// ownAllPaths lists the stored-level paths of a level mask in pre-order:
// path word = (prefix bits left-aligned in `height` bits) << 32 | (length
// 1-bits left-aligned in `height` bits).
func ownAllPaths(mask int32) []uint64 {
	h := uint(0)
	for (mask >> (h + 1)) != 0 {
		h++
	}
	var out []uint64
	var rec func(bits uint64, l uint)
	rec = func(bits uint64, l uint) {
		if mask>>l&1 == 1 {
			lm := (uint64(1)<<l - 1) << (h - l)
			out = append(out, (bits<<(h-l))<<32|lm)
		}
		if l < h {
			rec(bits<<1, l+1)
			rec(bits<<1|1, l+1)
		}
	}
	rec(0, 0)
	return out
}

func ownJoin(subs []uint64, width int) []uint64 {
	out := make([]uint64, (len(subs)*width+63)/64)
	for i, v := range subs {
		if width < 64 {
			v &= uint64(1)<<uint(width) - 1
		}
		j := i * width
		out[j/64] |= v << uint(j%64)
	}
	return out
}

func ownBitWords(s string, width int) []byte {
	out := make([]byte, 0, len(s)*8/width)
	for i := 0; i < len(s); i++ {
		for sh := 8 - width; sh >= 0; sh -= width {
			out = append(out, s[i]>>uint(sh)&(1<<uint(width)-1))
		}
	}
	return out
}

// buildWorld constructs the shared world in the arena and seals it. The twin
// (arena_common.go) holds the same values in different surroundings; it shares
// the huge key list, which lives on the Go heap and has no surroundings to vary.
func buildWorld(spec WorldSpec, twinOf *world) *world {
	a := newArena(twinOf != nil)
	w := &world{arena: a, twin: twinOf != nil}
	for _, bs := range spec.Bitmaps {
		words := a.u64s(buildBitmapWords(bs))
		b := &wBitmap{words: words}
		var pos []int32
		for i, wd := range words {
			for j := 0; j < 64; j++ {
				if wd>>uint(j)&1 == 1 {
					pos = append(pos, int32(i*64+j))
				}
			}
		}
		b.ones = int32(len(pos))
		b.pos = a.i32s(pos)
		b.r64 = a.i32s(ownIndexRank64(words, false))
		b.r64t = a.i32s(ownIndexRank64(words, true))
		b.r128 = a.i32s(ownIndexRank128(words))
		b.s32 = a.i32s(ownIndexSelect32(pos))
		b.s32r, b.s32rRank = a.i32s(ownIndexSelect32(pos)), a.i32s(ownIndexRank64(words, true))
		k1, k2 := len(b.pos)/3, 2*len(b.pos)/3
		b.segs = [][]int32{b.pos[:k1], b.pos[k1:k2], b.pos[k2:]}
		for _, sg := range b.segs {
			sz := int32(1)
			if len(sg) > 0 {
				sz = sg[len(sg)-1] + 1
			}
			b.sizes = append(b.sizes, sz)
		}
		us := append([]int32(nil), pos...)
		if len(us) >= 3 {
			us[0], us[len(us)-2] = us[len(us)-2], us[0]
		}
		b.unsorted = a.i32s(us)
		b.tail = bitmap.NewTailBitmap(64)
		for _, q := range pos {
			b.tail.Set(int64(q) + 64)
		}
		w.bitmaps = append(w.bitmaps, b)
	}
	for _, ks := range spec.Keys {
		keys := buildKeys(ks)
		if len(keys) < 2 {
			keys = []string{"a", "b"}
		}
		k := &wKeys{keys: a.strs(keys)}
		for _, s := range k.keys {
			to := int32(len(s) * 8)
			if to > 0 && engine.H(ks.Seed, 9, uint64(len(k.bs)))%2 == 0 {
				to -= int32(engine.H(ks.Seed, 10, uint64(len(k.bs))) % 8)
			}
			k.bs = append(k.bs, a.bytes(ownBitStr(s, to)))
		}
		for _, s := range k.keys {
			k.kb = append(k.kb, a.bytes([]byte(s)))
		}
		for _, width := range []int{1, 2, 4, 8} {
			for _, s := range k.keys {
				k.words[width] = append(k.words[width], a.bytes(ownBitWords(s, width)))
			}
		}
		k.sb = sigbits.New(k.keys)
		w.keys = append(w.keys, k)
	}
	masks := spec.Masks
	if spec.HugeMasks {
		masks = []int32{1<<20 | 1<<1, 1<<20 | 1<<2 | 1, 1<<20 | 1<<3}
	}
	for _, m := range masks {
		wm := &wMask{mask: m}
		if !spec.HugeMasks {
			wm.paths = a.u64s(ownAllPaths(m))
		}
		nb := make([]uint64, (int(m)+63)/64+1)
		for i := range nb {
			nb[i] = engine.H(uint64(m), uint64(i))
		}
		wm.bm = a.u64s(nb)
		// a bitmap SHORTER than the tree (supported: missing words read as 0),
		// with spare capacity behind it like every arena slice
		wm.bmShort = a.u64s(nb[:len(nb)/2])
		w.masks = append(w.masks, wm)
	}
	for _, js := range spec.Joins {
		subs := make([]uint64, js.N)
		for i := range subs {
			subs[i] = engine.H(js.Seed, uint64(i))
		}
		j := &wJoin{width: int32(js.Width), n: int32(js.N), subs: a.u64s(subs)}
		j.words = a.u64s(ownJoin(j.subs, js.Width))
		w.joins = append(w.joins, j)
	}
	if spec.HugeWords > 0 && twinOf != nil {
		w.hugeWords = twinOf.hugeWords
	} else if spec.HugeWords > 0 {
		// sparse, with a few dense and all-ones words, and nothing at all in the
		// last quarter (so that parts of very different cost exist)
		w.hugeWords = make([]uint64, spec.HugeWords)
		for i := 0; i < 3*spec.HugeWords/4; i++ {
			h := engine.H(uint64(spec.HugeWords), 77, uint64(i))
			switch {
			case h%5 == 0:
				w.hugeWords[i] = 1 << ((h >> 8) % 64)
			case h%997 == 0:
				w.hugeWords[i] = h
			case h%4999 == 0:
				w.hugeWords[i] = ^uint64(0)
			}
		}
	}
	if spec.HugeKeys > 0 && twinOf != nil {
		w.huge = twinOf.huge
	} else if spec.HugeKeys > 0 {
		w.huge = make([]string, spec.HugeKeys)
		buf := make([]byte, 8*spec.HugeKeys)
		v := uint64(0x0101010101010101)
		for i := range w.huge {
			v += 1 + engine.H(uint64(spec.HugeKeys), uint64(i))%1000
			b := buf[8*i : 8*i+8]
			for j := 0; j < 8; j++ {
				b[j] = byte(v >> uint(56-8*j))
			}
			w.huge[i] = string(b)
		}
	}
	a.seal()
	return w
}

// snapshot hashes every shared input (C19.snapshot).
func (w *world) snapshot() uint64 {
	h := uint64(0)
	// every slice is hashed over its FULL CAPACITY (spare sentinel included)
	hw := func(x []uint64) {
		for _, v := range x[:cap(x)] {
			h = engine.HashU64(h, v)
		}
		h = engine.HashU64(h, uint64(len(x)))
	}
	hi := func(x []int32) {
		for _, v := range x[:cap(x)] {
			h = engine.HashU64(h, uint64(uint32(v)))
		}
		h = engine.HashU64(h, uint64(len(x)))
	}
	hb := func(x []byte) {
		h = engine.HashBytes(h, x[:cap(x)])
		h = engine.HashU64(h, uint64(len(x)))
	}
	for _, b := range w.bitmaps {
		hw(b.words)
		hi(b.r64)
		hi(b.r64t)
		hi(b.r128)
		hi(b.s32)
		hi(b.s32r)
		hi(b.s32rRank)
		hi(b.pos)
		hi(b.unsorted)
	}
	for _, k := range w.keys {
		for _, s := range k.keys {
			h = engine.HashBytes(h, []byte(s))
			h = engine.HashU64(h, uint64(len(s)))
		}
		for _, b := range k.bs {
			hb(b)
		}
		for _, b := range k.kb {
			hb(b)
		}
		for _, ws := range k.words {
			for _, b := range ws {
				hb(b)
			}
		}
	}
	for _, m := range w.masks {
		hw(m.paths)
		hw(m.bm)
		hw(m.bmShort)
	}
	for _, j := range w.joins {
		hw(j.words)
		hw(j.subs)
	}
	if w.hugeWords != nil {
		hw(w.hugeWords)
	}
	return h
}

// tablesHash hashes the package-level tables (C19.tables).
func tablesHash() uint64 {
	h := uint64(0)
	for _, t := range [][]uint64{bitmap.Mask[:], bitmap.RMask[:], bitmap.MaskUpto[:], bitmap.RMaskUpto[:], bitmap.Bit[:], bitmap.RBit[:]} {
		for _, v := range t {
			h = engine.HashU64(h, v)
		}
	}
	for _, width := range []int{1, 2, 4, 8} {
		// the BitWord map, observed through its behaviour
		h = engine.HashBytes(h, bitword.BitWord[width].FromStr("\xa5\x3c\xff\x00"))
	}
	h = engine.HashU64(h, uint64(len(bitword.BitWord)))
	h = engine.HashBytes(h, selectTableCopy())
	for _, v := range idxToPathCopy() {
		h = engine.HashU64(h, v)
	}
	return h
}
