package scen

import (
	"sort"

	"github.com/openacid/low/bitmap"
	"github.com/openacid/low/bitstr"
	"github.com/openacid/low/bitword"
	"github.com/openacid/low/bmtree"
	"github.com/openacid/low/sigbits"

	"verifsim/engine"
)

// ---------------------------------------------------------------------------
// C19 — the SHARED WORLD of scenario "readers" (DESIGN §4.6): bitmaps with all
// their indexes, ascending key lists with deep shared prefixes, bitstr
// encodings, level masks with their paths, joined word arrays. It is built by
// the plan before any task starts and is only ever READ afterwards.
//
// Every shared []uint64 / []int32 / []byte / string is allocated through an
// arena: the Go heap in the -race build, a private mapping that is made
// READ-ONLY after construction in the statement-yield build (so that any write
// by the library — even of the same value — faults).
// ---------------------------------------------------------------------------

type WorldSpec struct {
	Bitmaps []BitmapSpec `json:"bitmaps"`
	Keys    []KeySpec    `json:"keys"`
	Masks   []int32      `json:"masks"` // bmtree level masks (bitmapSize), height <= 9
	Joins   []JoinSpec   `json:"joins"`
}

type BitmapSpec struct {
	Shape  string `json:"shape"` // sparse | dense | allones | gaps | edges | half
	NWords int    `json:"nwords"`
	Seed   uint64 `json:"seed"`
}

type KeySpec struct {
	N        int    `json:"n"`
	Prefix   int    `json:"prefix"`   // length of the prefix shared by all keys
	Alphabet string `json:"alphabet"` // small | full
	Seed     uint64 `json:"seed"`
}

type JoinSpec struct {
	Width int    `json:"width"`
	N     int    `json:"n"`
	Seed  uint64 `json:"seed"`
}

type wBitmap struct {
	words    []uint64
	r64      []int32
	r64t     []int32
	r128     []int32
	s32      []int32
	s32r     []int32
	s32rRank []int32
	ones     int32
	pos      []int32 // ascending positions of the 1-bits (harness's own)
}

type wKeys struct {
	keys  []string
	bs    [][]byte // bitstr encodings, one per key
	kb    [][]byte // the keys as plain byte slices (for CmpUpto)
	sb    *sigbits.SigBits
	words [9][][]byte // bitword words per width (1,2,4,8), one slice per key
}

type wMask struct {
	mask  int32
	paths []uint64
	bm    []uint64 // a bitmap over the stored nodes
}

type wJoin struct {
	width int32
	n     int32
	words []uint64
	subs  []uint64
}

type world struct {
	bitmaps []*wBitmap
	keys    []*wKeys
	masks   []*wMask
	joins   []*wJoin
	arena   *arena
}

func genWorldSpec(r *engine.PRNG) WorldSpec {
	var w WorldSpec
	nb := 3 + r.Intn(4)
	for i := 0; i < nb; i++ {
		b := BitmapSpec{Seed: r.Uint64()}
		b.Shape = r.PickStr("sparse", "dense", "allones", "gaps", "edges", "half")
		b.NWords = r.PickInt(1, 2, 3, 4, 5, 8, 17, 40)
		w.Bitmaps = append(w.Bitmaps, b)
	}
	nk := 2 + r.Intn(3)
	for i := 0; i < nk; i++ {
		k := KeySpec{Seed: r.Uint64(), N: 2 + r.Intn(29)}
		k.Prefix = r.PickInt(0, 1, 7, 8, 9, 17, 20)
		k.Alphabet = r.PickStr("small", "small", "full")
		w.Keys = append(w.Keys, k)
	}
	nm := 2 + r.Intn(3)
	for i := 0; i < nm; i++ {
		h := uint(r.Intn(9)) // height 0..8
		m := int32(1)<<h | int32(r.Uint64()&uint64((int32(1)<<h)-1))
		switch r.Intn(4) {
		case 0:
			m = int32(1)<<(h+1) - 1 // full tree
		case 1:
			m = int32(1) << h // leaf only
		}
		w.Masks = append(w.Masks, m)
	}
	nj := 1 + r.Intn(3)
	for i := 0; i < nj; i++ {
		w.Joins = append(w.Joins, JoinSpec{Width: r.PickInt(1, 2, 4, 8, 16, 32, 64), N: 1 + r.Intn(40), Seed: r.Uint64()})
	}
	return w
}

func buildBitmapWords(s BitmapSpec) []uint64 {
	out := make([]uint64, s.NWords)
	for i := range out {
		h := engine.H(s.Seed, uint64(i))
		switch s.Shape {
		case "sparse":
			if h%3 == 0 {
				out[i] = 1 << ((h >> 8) % 64)
			}
			if h%7 == 0 {
				out[i] |= 1 << ((h >> 16) % 64)
			}
		case "dense":
			out[i] = h | engine.H(s.Seed, uint64(i), 1)
		case "allones":
			out[i] = ^uint64(0)
		case "gaps": // empty words between ones
			if i%3 == 0 {
				out[i] = h
			}
		case "edges":
			out[i] = 1 | 1<<63
			if h%4 == 0 {
				out[i] = 0
			}
		case "half":
			out[i] = h & 0xffffffff00000000
			if i%2 == 1 {
				out[i] = h & 0x00000000ffffffff
			}
		}
	}
	return out
}

func buildKeys(s KeySpec) []string {
	alpha := []byte{0x00, 'a', 'b', 0x80, 0xff}
	pre := make([]byte, s.Prefix)
	for i := range pre {
		pre[i] = alpha[engine.H(s.Seed, 1, uint64(i))%uint64(len(alpha))]
	}
	set := map[string]bool{}
	for i := 0; len(set) < s.N && i < 10*s.N+20; i++ {
		h := engine.H(s.Seed, 2, uint64(i))
		l := int(h % 12)
		k := append([]byte(nil), pre...)
		for j := 0; j < l; j++ {
			hj := engine.H(s.Seed, 3, uint64(i), uint64(j))
			if s.Alphabet == "full" {
				k = append(k, byte(hj))
			} else {
				k = append(k, alpha[hj%uint64(len(alpha))])
			}
		}
		set[string(k)] = true
	}
	keys := make([]string, 0, len(set))
	for k := range set {
		keys = append(keys, k)
	}
	sort.Strings(keys)
	return keys
}

// buildWorld constructs the shared world in the arena and seals it.
func buildWorld(spec WorldSpec) *world {
	a := newArena()
	w := &world{arena: a}
	for _, bs := range spec.Bitmaps {
		words := a.u64s(buildBitmapWords(bs))
		b := &wBitmap{words: words}
		b.r64 = a.i32s(bitmap.IndexRank64(words))
		b.r64t = a.i32s(bitmap.IndexRank64(words, true))
		b.r128 = a.i32s(bitmap.IndexRank128(words))
		b.s32 = a.i32s(bitmap.IndexSelect32(words))
		s, r := bitmap.IndexSelect32R64(words)
		b.s32r, b.s32rRank = a.i32s(s), a.i32s(r)
		var pos []int32
		for i, wd := range words {
			for j := 0; j < 64; j++ {
				if wd>>uint(j)&1 == 1 {
					pos = append(pos, int32(i*64+j))
				}
			}
		}
		b.ones = int32(len(pos))
		b.pos = a.i32s(pos)
		w.bitmaps = append(w.bitmaps, b)
	}
	for _, ks := range spec.Keys {
		keys := buildKeys(ks)
		if len(keys) < 2 {
			keys = []string{"a", "b"}
		}
		k := &wKeys{keys: a.strs(keys)}
		for _, s := range k.keys {
			to := int32(len(s) * 8)
			if to > 0 && engine.H(ks.Seed, 9, uint64(len(k.bs)))%2 == 0 {
				to -= int32(engine.H(ks.Seed, 10, uint64(len(k.bs))) % 8)
			}
			k.bs = append(k.bs, a.bytes(bitstr.New(s, 0, to)))
		}
		for _, s := range k.keys {
			k.kb = append(k.kb, a.bytes([]byte(s)))
		}
		for _, width := range []int{1, 2, 4, 8} {
			for _, s := range k.keys {
				k.words[width] = append(k.words[width], a.bytes(bitword.BitWord[width].FromStr(s)))
			}
		}
		k.sb = sigbits.New(k.keys)
		w.keys = append(w.keys, k)
	}
	for _, m := range spec.Masks {
		wm := &wMask{mask: m}
		wm.paths = a.u64s(bmtree.AllPaths(m, 0, 1<<63))
		nb := make([]uint64, (int(m)+63)/64+1)
		for i := range nb {
			nb[i] = engine.H(uint64(m), uint64(i))
		}
		wm.bm = a.u64s(nb)
		w.masks = append(w.masks, wm)
	}
	for _, js := range spec.Joins {
		subs := make([]uint64, js.N)
		for i := range subs {
			subs[i] = engine.H(js.Seed, uint64(i))
		}
		j := &wJoin{width: int32(js.Width), n: int32(js.N), subs: a.u64s(subs)}
		j.words = a.u64s(bitmap.Join(j.subs, j.width))
		w.joins = append(w.joins, j)
	}
	a.seal()
	return w
}

// snapshot hashes every shared input (C19.snapshot).
func (w *world) snapshot() uint64 {
	h := uint64(0)
	hw := func(x []uint64) {
		for _, v := range x {
			h = engine.HashU64(h, v)
		}
		h = engine.HashU64(h, uint64(len(x)))
	}
	hi := func(x []int32) {
		for _, v := range x {
			h = engine.HashU64(h, uint64(uint32(v)))
		}
		h = engine.HashU64(h, uint64(len(x)))
	}
	for _, b := range w.bitmaps {
		hw(b.words)
		hi(b.r64)
		hi(b.r64t)
		hi(b.r128)
		hi(b.s32)
		hi(b.s32r)
		hi(b.s32rRank)
		hi(b.pos)
	}
	for _, k := range w.keys {
		for _, s := range k.keys {
			h = engine.HashBytes(h, []byte(s))
			h = engine.HashU64(h, uint64(len(s)))
		}
		for _, b := range k.bs {
			h = engine.HashBytes(h, b)
			h = engine.HashU64(h, uint64(len(b)))
		}
		for _, b := range k.kb {
			h = engine.HashBytes(h, b)
		}
		for _, ws := range k.words {
			for _, b := range ws {
				h = engine.HashBytes(h, b)
				h = engine.HashU64(h, uint64(len(b)))
			}
		}
	}
	for _, m := range w.masks {
		hw(m.paths)
		hw(m.bm)
	}
	for _, j := range w.joins {
		hw(j.words)
		hw(j.subs)
	}
	return h
}

// tablesHash hashes the package-level tables (C19.tables).
func tablesHash() uint64 {
	h := uint64(0)
	for _, t := range [][]uint64{bitmap.Mask[:], bitmap.RMask[:], bitmap.MaskUpto[:], bitmap.RMaskUpto[:], bitmap.Bit[:], bitmap.RBit[:]} {
		for _, v := range t {
			h = engine.HashU64(h, v)
		}
	}
	for _, width := range []int{1, 2, 4, 8} {
		// the BitWord map, observed through its behaviour
		h = engine.HashBytes(h, bitword.BitWord[width].FromStr("\xa5\x3c\xff\x00"))
	}
	h = engine.HashU64(h, uint64(len(bitword.BitWord)))
	h = engine.HashBytes(h, selectTableCopy())
	for _, v := range idxToPathCopy() {
		h = engine.HashU64(h, v)
	}
	return h
}
