package scen

import (
	"encoding/json"
	"errors"
	"fmt"
	"io"

	"github.com/openacid/low/iohelper"

	"verifsim/engine"
	"verifsim/simio"
)

// ---------------------------------------------------------------------------
// C18 — scenario "section-ops" (DESIGN §4.5)
//
// 1–3 tasks, each with its own SectionWriter (or AtToWriter) over ONE shared
// simulated disk, interleaved by the scheduler at every underlying WriteAt.
// A per-writer reference model (base, cur, limit) predicts every byte that may
// reach the disk, every returned count and every error class; invariants are
// read from the DISK LOG (ground truth), not from return values.
// ---------------------------------------------------------------------------

type SectionPlan struct {
	Capacity int64 `json:"capacity"` // <0: none
	// ErrKind: which error VALUE armed disk faults return (errkinds.go: a private sentinel, well-known io errors,
	// what a real file returns such as *os.PathError{ENOSPC}, bare errnos, a deadline): it must be propagated whatever it is.
	ErrKind     string          `json:"err_kind,omitempty"`
	ContentSeed uint64          `json:"content_seed"`
	Writers     []SecWriter     `json:"writers"`
	Sched       engine.Schedule `json:"sched"`
}

type SecWriter struct {
	Kind string  `json:"kind"` // "section" | "at"
	Off  int64   `json:"off"`
	N    int64   `json:"n"` // section length; ignored for "at"
	Ops  []SecOp `json:"ops"`
	// Inner, if set, nests the writer: the underlying io.WriterAt of this writer
	// is itself a SectionWriter [Inner.Off, Inner.Off+Inner.N) over the disk
	// ("several structures share one file"); Off is then relative to the inner
	// section and the inner end also bounds every byte.
	Inner *SecInner `json:"inner,omitempty"`
	// Observe: how often the cursor is observed with Seek(0, SeekCurrent) after
	// an operation: "" = after every one, "some" = after about half (decided
	// by a hash of the op index), "never". An observer is itself a call: a
	// defect that a Seek happens to repair must not be hidden by it.
	Observe string `json:"observe,omitempty"`
}

type SecInner struct {
	Off int64 `json:"off"`
	N   int64 `json:"n"`
	// Seek >= 0: the inner section has been USED before the outer writer is laid
	// over it — its cursor was moved to this section-relative position (Seek
	// only: no byte reaches the disk). Where a parent's cursor stands is no
	// business of a section nested in it. -1 / absent: a fresh parent.
	Seek *int64 `json:"seek,omitempty"`
}

type SecOp struct {
	Op     string    `json:"op"` // write | writeat | seek | size
	Len    int       `json:"len,omitempty"`
	Rel    int64     `json:"rel,omitempty"` // writeat: section-relative offset; seek: offset
	Whence int       `json:"whence,omitempty"`
	Pat    int       `json:"pat,omitempty"` // payload content: 0 attributable pseudo-random, 1 all 0x00, 2 all 0xff
	Fault  *SecFault `json:"fault,omitempty"`
	// Stall > 0: the first non-empty underlying call of this operation is SLOW:
	// that many nanoseconds of simulated time pass before the disk serves it
	// (timers and deadlines of the code under test fire; no real time is spent)
	Stall int64 `json:"stall_ns,omitempty"`
}

type SecFault struct {
	Kind   string `json:"kind"` // fail | withfull | short_nil
	Budget int64  `json:"budget"`
	Sticky bool   `json:"sticky,omitempty"`
}

const maxInt64 = int64(^uint64(0) >> 1)

const secNoEnd = int64(1) << 55 // "no practical end" for plan arithmetic (sections of kind "section")

type Section struct{}

func (Section) Name() string     { return "section-ops" }
func (Section) Property() string { return "C18" }

func (Section) Decode(raw []byte) (engine.Plan, error) {
	var p SectionPlan
	if err := json.Unmarshal(raw, &p); err != nil {
		return nil, err
	}
	return &p, nil
}

func (Section) Generate(seed uint64, tier string) engine.Plan {
	r := engine.NewPRNG(seed)
	p := &SectionPlan{Capacity: -1, ContentSeed: r.Uint64()}
	p.ErrKind = r.PickStr(errKinds...)
	if r.Chance(1, 3000) {
		return genBigSection(r, p)
	}
	nw := 1
	switch r.Intn(10) {
	case 0, 1, 2:
		nw = 2
	case 3:
		nw = 3
	}
	adjacent := r.Chance(1, 2)
	faultsLeft := 0
	switch r.Intn(10) { // ≈30 % of runs draw zero faults
	case 0, 1, 2:
		faultsLeft = 0
	case 3, 4, 5, 6, 7:
		faultsLeft = 1
	default:
		faultsLeft = 2
	}
	shortNilCfg := r.Chance(1, 8) // contract-violating disk: separate sub-configuration
	next := r.PickInt64(0, 0, 1, 7, 4096, 1<<40)
	for wi := 0; wi < nw; wi++ {
		w := SecWriter{Kind: "section", Off: next}
		last := wi == nw-1
		w.N = r.PickInt64(0, 1, 2, 16, 16, 64, 100, 100, 255, 256, 1024, 4095, 4096, 4097, secNoEnd)
		if r.Chance(1, 6) {
			w.N = r.Range(3, 300)
		}
		if w.N == secNoEnd && !last {
			w.N = 100
		}
		if last && r.Chance(1, 6) {
			w.Kind = "at"
			w.N = 0
		}
		if r.Chance(1, 6) {
			// nested: an outer section (or AtToWriter) over an inner SectionWriter
			in := &SecInner{Off: w.Off, N: r.PickInt64(1, 16, 100, 100, 4096)}
			if r.Chance(1, 3) {
				k := r.PickInt64(1, 1, 5, in.N/2, in.N-1, in.N, in.N+3)
				if k < 0 {
					k = 0
				}
				in.Seek = &k
			}
			w.Inner = in
			w.Off = r.PickInt64(0, 0, 1, in.N/2, in.N-1, in.N)
			room := in.N - w.Off
			w.N = r.PickInt64(0, 1, 16, room, room, room+5, 2*in.N, room/2)
			if w.N < 0 {
				w.N = 0
			}
			w.Kind = r.PickStr("section", "section", "at")
			if w.Kind == "at" {
				w.N = 0
			}
			if adjacent {
				next = in.Off + in.N
			} else {
				next = in.Off + in.N + r.PickInt64(1, 3, 64, 5000)
			}
		} else if adjacent {
			next = w.Off + w.N
		} else {
			next = w.Off + w.N + r.PickInt64(1, 3, 64, 5000)
		}
		if last && w.Inner == nil && w.Kind == "section" && r.Chance(1, 10) {
			// a section that ends exactly at the top of the offset space (what
			// AtToWriter builds): large but valid positions, where a sum like
			// off+len(p) wraps although limit-off does not
			w.N = maxInt64 - w.Off
			nt := 1 + r.Intn(5)
			for i := 0; i < nt; i++ {
				k := r.PickInt64(0, 1, 2, 5, 100, 4096)
				switch r.Intn(4) {
				case 0:
					w.Ops = append(w.Ops, SecOp{Op: "seek", Whence: 2, Rel: -k})
				case 1:
					w.Ops = append(w.Ops, SecOp{Op: "seek", Whence: 0, Rel: w.N - k})
				case 2:
					w.Ops = append(w.Ops, SecOp{Op: "writeat", Rel: w.N - k, Len: int(r.PickInt64(0, 1, k-1, k, k+1, 2*k+3, 300))})
					if w.Ops[len(w.Ops)-1].Len < 0 {
						w.Ops[len(w.Ops)-1].Len = 0
					}
					continue
				default:
					w.Ops = append(w.Ops, SecOp{Op: "seek", Whence: 0, Rel: r.PickInt64(0, 1, 4096)})
				}
				l := r.PickInt64(0, 1, k-1, k, k+1, 2*k+3, 300)
				if l < 0 {
					l = 0
				}
				w.Ops = append(w.Ops, SecOp{Op: "write", Len: int(l)})
				if r.Chance(1, 2) {
					w.Ops = append(w.Ops, SecOp{Op: "write", Len: int(r.PickInt64(0, 1, 7))})
				}
			}
			p.Writers = append(p.Writers, w)
			continue
		}
		w.Observe = r.PickStr("", "", "some", "some", "never")
		nops := 1 + r.Intn(12)
		if r.Chance(1, 5) {
			nops = 1 + r.Intn(40)
		}
		if deep(tier) && r.Chance(1, 10) {
			nops = 40 + r.Intn(160) // thorough tier: long histories
		}
		cur := int64(0) // generator's estimate of the section-relative cursor (no faults)
		n := w.N
		if w.Kind == "at" || n == secNoEnd {
			n = 1 << 40
		}
		if w.Inner != nil {
			if room := w.Inner.N - w.Off; room < n {
				n = room // the inner end comes first
				if n < 0 {
					n = 0
				}
			}
		}
		for oi := 0; oi < nops; oi++ {
			var op SecOp
			k := r.Intn(10)
			if w.Kind == "at" && k > 8 {
				k = 0 // no Size() on an AtToWriter
			}
			if w.Kind == "at" && !r.Chance(1, 3) {
				k = 0 // mostly plain Writes: it is handed out as an io.Writer
			} else if cur >= n && n > 0 && r.Chance(2, 3) {
				// the cursor sits at/after the end: usually go back inside, otherwise
				// the rest of the history is one refused write after another
				back := r.Range(0, n-1)
				w.Ops = append(w.Ops, SecOp{Op: "seek", Whence: 0, Rel: back})
				cur = back
				continue
			}
			rem := n - cur
			pickLen := func() int {
				var l int64
				switch r.Intn(9) {
				case 0:
					l = 0
				case 1:
					l = 1
				case 2:
					l = rem - 1
				case 3:
					l = rem
				case 4:
					l = rem + 1
				case 5:
					l = 2 * n
				case 6:
					l = r.Range(0, 40)
				case 7:
					l = r.Range(0, 600)
				default:
					l = rem / 2
				}
				if l < 0 {
					l = 0
				}
				if l > 8192 {
					l = r.PickInt64(8192, 4097, 4096, 1000, 17)
				}
				return int(l)
			}
			switch {
			case k <= 4:
				op = SecOp{Op: "write", Len: pickLen()}
				adv := int64(op.Len)
				if adv > rem {
					adv = rem
				}
				if adv > 0 {
					cur += adv
				}
			case k <= 6:
				op = SecOp{Op: "writeat"}
				op.Rel = r.PickInt64(-1, 0, 0, 1, n-1, n, n+1, n/2, cur)
				if op.Rel > 1<<41 {
					op.Rel = r.PickInt64(0, 1, 4095, 4096)
				}
				rem = n - op.Rel
				op.Len = pickLen()
			case k <= 8:
				op = SecOp{Op: "seek"}
				op.Whence = r.PickInt(0, 0, 1, 1, 2, 2, 3, -1)
				switch r.Intn(8) {
				case 0:
					op.Rel = 0
				case 1:
					op.Rel = -cur
				case 2:
					op.Rel = -cur - 1
				case 3:
					op.Rel = r.Range(-n-1, n+1)
				case 4:
					op.Rel = 1 << 20
				case 5:
					op.Rel = -1
				case 6:
					op.Rel = r.Range(-20, 20)
				default:
					op.Rel = -n
				}
				if w.N == secNoEnd || w.Kind == "at" {
					// keep targets well inside int64: SeekEnd of an endless section is
					// outside "io.Seeker semantics relative to the section".
					if op.Whence == 2 {
						op.Whence = r.PickInt(0, 1)
					}
					if op.Rel > 1<<41 || op.Rel < -(1<<41) {
						op.Rel = r.Range(-5, 5000)
					}
				}
				// track estimate
				var tgt int64
				switch op.Whence {
				case 0:
					tgt = op.Rel
				case 1:
					tgt = cur + op.Rel
				case 2:
					tgt = n + op.Rel
				default:
					tgt = -1
				}
				if tgt >= 0 {
					cur = tgt
				}
			default:
				op = SecOp{Op: "size"}
			}
			if (op.Op == "write" || op.Op == "writeat") && r.Chance(1, 8) {
				op.Pat = r.PickInt(1, 2)
			}
			if (op.Op == "write" || op.Op == "writeat") && op.Len > 0 && faultsLeft > 0 && r.Chance(1, 3) {
				faultsLeft--
				f := &SecFault{Kind: "fail"}
				switch r.Intn(8) {
				case 0:
					f.Kind = "withfull"
				}
				if shortNilCfg {
					f.Kind = r.PickStr("short_nil", "short_nil_each")
				}
				eff := int64(op.Len)
				if eff > rem && rem > 0 {
					eff = rem
				}
				switch r.Intn(4) {
				case 0:
					f.Budget = 0
				case 1:
					f.Budget = eff - 1
				case 2:
					f.Budget = r.Range(0, eff)
				default:
					f.Budget = eff / 2
				}
				if f.Budget < 0 {
					f.Budget = 0
				}
				f.Sticky = r.Chance(1, 3) && f.Kind != "short_nil" && f.Kind != "short_nil_each"
				if f.Kind == "short_nil_each" {
					// every underlying call accepts at most this many bytes: small, so
					// that a request needs three or more calls
					f.Budget = r.PickInt64(1, 1, 2, 3, 5, 8, eff/3, eff/4+1, eff/7+1)
					if f.Budget < 1 {
						f.Budget = 1
					}
				}
				op.Fault = f
			}
			if (op.Op == "write" || op.Op == "writeat") && op.Len > 0 && r.Chance(1, 12) {
				op.Stall = r.PickInt64(1000000, 200000000, 2000000000, 60000000000, 3600000000000)
			}
			w.Ops = append(w.Ops, op)
		}
		p.Writers = append(p.Writers, w)
	}
	if r.Chance(1, 6) {
		// disk full somewhere inside (or at the edges of) a section
		w := p.Writers[r.Intn(len(p.Writers))]
		n := w.N
		if w.Kind == "at" || n >= secNoEnd {
			n = 5000
		}
		absOff := w.Off
		if w.Inner != nil {
			absOff += w.Inner.Off
		}
		p.Capacity = absOff + r.PickInt64(0, 1, n/2, n-1, n, n+1)
		if p.Capacity < 0 {
			p.Capacity = 0
		}
	}
	p.Sched = genSchedule(r, nw)
	return p
}

// genBigSection: one writer, one or two requests of 64 KiB .. 8 MiB (sizes a
// pass-through that forwards in pieces would use as its piece size, +-1), and
// an underlying failure anywhere inside — in particular after one or more
// whole pieces. Rare (1 run in 3000): the byte-exact model is linear in the
// request size.
func genBigSection(r *engine.PRNG, p *SectionPlan) *SectionPlan {
	w := SecWriter{Kind: r.PickStr("section", "section", "at"), Off: r.PickInt64(0, 1, 4096, 1<<40)}
	L := r.PickInt64(1<<16+1, 1<<20, 1<<20+1, 4<<20, 4<<20+1, 8<<20, 8<<20+3, 5<<20+12345)
	w.N = r.PickInt64(secNoEnd, secNoEnd, L, L-1, L+1, 2*L, L/2+7)
	if w.Kind == "at" {
		w.N = 0
	}
	w.Observe = r.PickStr("", "some", "never")
	pre := r.PickInt64(0, 0, 1, 4095)
	if pre > 0 {
		w.Ops = append(w.Ops, SecOp{Op: "write", Len: int(pre)})
	}
	op := SecOp{Op: "write", Len: int(L)}
	if w.Kind == "section" && r.Chance(1, 3) {
		op = SecOp{Op: "writeat", Len: int(L), Rel: r.PickInt64(0, 1, 4096)}
	}
	if r.Chance(3, 4) {
		f := &SecFault{Kind: "fail", Sticky: r.Chance(1, 3)}
		f.Budget = r.PickInt64(0, 1, L/2, L-1, 1<<16, 1<<20, 1<<20+1, 4<<20-1, 4<<20, 4<<20+1, r.Range(0, L), r.Range(0, L))
		if f.Budget >= L {
			f.Budget = L - 1
		}
		if r.Chance(1, 8) {
			f.Kind = "withfull"
		}
		op.Fault = f
	}
	w.Ops = append(w.Ops, op, SecOp{Op: "write", Len: int(r.PickInt64(0, 1, 100))}, SecOp{Op: "seek", Whence: 1})
	p.Writers = append(p.Writers, w)
	if r.Chance(1, 5) {
		p.Capacity = w.Off + r.Range(0, L)
	}
	p.Sched = engine.Schedule{Mode: "seq"}
	return p
}

// genSchedule picks a schedule for n tasks.
func genSchedule(r *engine.PRNG, n int) engine.Schedule {
	if n <= 1 {
		return engine.Schedule{Mode: "seq"}
	}
	switch r.Intn(6) {
	case 0:
		return engine.Schedule{Mode: "seq"}
	case 1:
		return engine.Schedule{Mode: "hash", Seed: r.Uint64(), Den: 1}
	case 2:
		return engine.Schedule{Mode: "hash", Seed: r.Uint64(), Den: 2}
	default:
		return engine.Schedule{Mode: "hash", Seed: r.Uint64(), Den: 1 + r.Intn(8)}
	}
}

// secModel is the reference model of one writer.
type secModel struct {
	base, cur, limit int64
	wlimit           int64 // effective end for bytes: min(limit, end of the inner section if nested)
	endless          bool
	sticky           error // the handle's sticky failure, once tripped
}

// predictDisk mirrors the disk's fault model for ONE offered range: it is the
// model's statement of what a faulty io.WriterAt does, not a copy of the code
// under test.
func predictDisk(errInjected error, capacity int64, sticky *error, f *SecFault, fired *bool, off int64, m int64) (k int64, err error) {
	k = m
	if m > 0 {
		switch {
		case *sticky != nil:
			k, err = 0, *sticky
		case f != nil && !*fired:
			switch f.Kind {
			case "fail":
				capFirst := false
				if capacity >= 0 {
					room := capacity - off
					if room < 0 {
						room = 0
					}
					capFirst = room < f.Budget && room < m // the disk-full point comes first
				}
				if !capFirst && f.Budget < m {
					k, err = f.Budget, errInjected
					*fired = true
					if f.Sticky {
						*sticky = errInjected
					}
				}
			case "withfull":
				err = errInjected
				*fired = true
				if f.Sticky {
					*sticky = errInjected
				}
			case "short_nil", "short_nil_each":
				if f.Budget < m {
					k = f.Budget
					*fired = true
				}
			}
		}
		if capacity >= 0 && off+k > capacity {
			na := capacity - off
			if na < 0 {
				na = 0
			}
			if na < k {
				k = na
				if err == nil {
					err = simio.ErrNoSpace
				}
			}
		}
	}
	return
}

func (Section) Execute(pl engine.Plan, c *engine.RunCtx) *engine.Failure {
	p := pl.(*SectionPlan)
	errInjected := errOfKind(p.ErrKind)
	disk := simio.NewDisk()
	disk.Capacity = p.Capacity
	sch := engine.NewSched(p.Sched)
	var fail *engine.Failure
	st := c.Stats
	c.Tasks = len(p.Writers)
	type owner struct{ base, limit int64 }
	owners := make([]owner, len(p.Writers))
	handles := make([]*simio.Handle, len(p.Writers))

	for wi := range p.Writers {
		wi := wi
		w := p.Writers[wi]
		sch.Spawn(func(t *engine.Task) {
			h := disk.Handle(wi, t.Yield)
			handles[wi] = h
			// the model works in ABSOLUTE disk offsets
			var under io.WriterAt = h
			shift := int64(0)
			innerEnd := int64(^uint64(0) >> 1)
			if w.Inner != nil {
				innerSW := iohelper.NewSectionWriter(h, w.Inner.Off, w.Inner.N)
				if w.Inner.Seek != nil {
					if _, err := innerSW.Seek(*w.Inner.Seek, io.SeekStart); err != nil {
						fail = engine.Failf("C18.seek", wi*1000, "Seek(%d, SeekStart) on the inner section [%d,+%d) returned %v", *w.Inner.Seek, w.Inner.Off, w.Inner.N, err)
						return
					}
					st.Inc("probe.C18.nested_over_a_section_whose_cursor_was_moved")
				}
				under = innerSW
				shift = w.Inner.Off
				innerEnd = w.Inner.Off + w.Inner.N
				st.Inc("probe.C18.nested_over_a_section")
			}
			m := &secModel{base: shift + w.Off, cur: shift + w.Off}
			var sw *iohelper.SectionWriter
			var wr io.Writer
			if w.Kind == "at" {
				wr = iohelper.AtToWriter(under, w.Off)
				m.limit = int64(^uint64(0) >> 1)
				m.endless = true
				// "behaves as a section from off": if what it hands out IS a section
				// writer (it is declared as io.Writer), its Seek/WriteAt are held to
				// the same model; if a future version returns something else, those
				// operations are skipped
				sw, _ = wr.(*iohelper.SectionWriter)
				if sw != nil {
					st.Inc("probe.C18.attowriter_used_as_a_section")
				}
			} else {
				sw = iohelper.NewSectionWriter(under, w.Off, w.N)
				wr = sw
				m.limit = shift + w.Off + w.N
				m.endless = w.N == secNoEnd
			}
			m.wlimit = m.limit
			if innerEnd < m.wlimit {
				m.wlimit = innerEnd
			}
			owners[wi] = owner{m.base, m.wlimit}
			payloadBuf := make([]byte, 0, 256)
			for oi, op := range w.Ops {
				if fail != nil {
					return
				}
				step := wi*1000 + oi
				if sw == nil && op.Op != "write" {
					continue // not a section writer: only Write is available
				}
				if w.Kind == "at" && op.Op == "size" {
					continue
				}
				c.Status.SetStep(uint64(step), 1)
				st.Inc("op." + op.Op)
				var arm simio.Arm
				if op.Fault != nil {
					arm = simio.Arm{Active: true, Budget: op.Fault.Budget, Kind: op.Fault.Kind, Sticky: op.Fault.Sticky, Err: errInjected}
					st.Inc("fault.configured.disk." + op.Fault.Kind)
				}
				if op.Stall > 0 {
					arm.StallNs = op.Stall
					st.Inc("fault.configured.io.stall")
				}
				h.BeginOp(arm)
				fired := false
				switch op.Op {
				case "write", "writeat":
					if cap(payloadBuf) < op.Len {
						payloadBuf = make([]byte, op.Len)
					}
					buf := payloadBuf[:op.Len]
					engine.Fill(buf, p.ContentSeed, step)
					if op.Pat == 1 || op.Pat == 2 {
						for i := range buf {
							buf[i] = byte(0xff * (op.Pat - 1))
						}
					}
					var n int
					var err error
					var at, mm int64 // where the model offers bytes, and how many
					refused := false
					var pan interface{}
					func() {
						defer func() { pan = recover() }()
						if op.Op == "write" {
							n, err = wr.Write(buf)
						} else {
							n, err = sw.WriteAt(buf, op.Rel)
						}
					}()
					if pan != nil {
						if he, ok := pan.(engine.HarnessError); ok {
							panic(he)
						}
						fail = engine.Failf("C18.panic", step, "%s(len=%d rel=%d) panicked: %v", op.Op, op.Len, op.Rel, pan)
						return
					}
					if op.Op == "write" {
						at = m.cur
						if m.cur >= m.wlimit {
							refused = true // at/after this section's end, or the inner section's
						} else {
							mm = int64(op.Len)
							if mm > m.wlimit-m.cur {
								mm = m.wlimit - m.cur
							}
						}
					} else {
						at = m.base + op.Rel
						if op.Rel < 0 || at >= m.wlimit {
							refused = true
						} else {
							mm = int64(op.Len)
							if mm > m.wlimit-at {
								mm = m.wlimit - at
							}
						}
					}
					truncated := !refused && mm < int64(op.Len)
					var k int64
					var derr error
					if !refused {
						k, derr = predictDisk(errInjected, p.Capacity, &m.sticky, op.Fault, &fired, at, mm)
					}
					recv := h.OpRecv()
					// Two fault kinds are not byte-positions but CALL outcomes: "withfull"
					// (a request is accepted whole and an error is returned with it) and
					// "short_nil" (fewer bytes than requested and NO error: a violation of
					// the io.WriterAt contract). How many bytes pass through then depends
					// on how the implementation splits or retries underlying calls, which
					// the statement leaves open. For these two the model takes the
					// accepted count from the disk log (it must be a prefix of the
					// offered bytes, 1..mm) and still checks placement, the returned
					// count, the cursor, and — unless held back below — the error.
					observedK := false
					if fired && op.Fault != nil && (op.Fault.Kind == "withfull" || op.Fault.Kind == "short_nil" || op.Fault.Kind == "short_nil_each") {
						acc := int64(0)
						for _, rc := range recv {
							acc += int64(len(rc.Data))
						}
						lo := int64(1)
						if op.Fault.Kind == "short_nil" || op.Fault.Kind == "short_nil_each" {
							lo = op.Fault.Budget
						}
						if acc >= lo && acc <= mm {
							if acc != k {
								st.Inc("probe.C18.call_outcome_fault_count_taken_from_disk_log")
							}
							k = acc
							observedK = true
							// the disk-full rule may additionally have cut it: that is in acc
						}
					}
					c.Ev(wi, op.Op, int64(op.Len), op.Rel, int64(n), int64(len(recv)))
					// --- C18.contain: every byte received lies inside the caller's section
					for _, rc := range recv {
						if len(rc.Data) == 0 && rc.Offered == 0 {
							continue // an empty underlying call has no byte to place
						}
						lo, hi := rc.Off, rc.Off+int64(rc.Offered)
						if hi < lo {
							// the offered range runs past the top of the offset space
							fail = engine.Failf("C18.contain", step, "writer %d [%d,%d) offered %d bytes at offset %d to the underlying writer: that runs %d bytes past the section end (and past the top of the int64 offset space) (op %s len=%d rel=%d)", wi, m.base, m.wlimit, rc.Offered, rc.Off, int64(rc.Offered)-(m.wlimit-rc.Off), op.Op, op.Len, op.Rel)
							return
						}
						if lo < m.base || hi > m.wlimit || lo < 0 {
							fail = engine.Failf("C18.contain", step, "writer %d [%d,%d) let bytes [%d,%d) reach the disk (op %s len=%d rel=%d)", wi, m.base, m.wlimit, lo, hi, op.Op, op.Len, op.Rel)
							return
						}
					}
					// --- C18.place: byte effects equal the model's prediction
					accepted := int64(0)
					for _, rc := range recv {
						accepted += int64(len(rc.Data))
					}
					if accepted != k {
						fail = engine.Failf("C18.place", step, "underlying writer accepted %d bytes during %s(len=%d rel=%d), model predicts %d at %d", accepted, op.Op, op.Len, op.Rel, k, at)
						return
					}
					j := 0 // the j-th accepted byte of the operation, in the order received
					for _, rc := range recv {
						for i, b := range rc.Data {
							if pos := rc.Off + int64(i); pos != at+int64(j) || b != buf[j] {
								fail = engine.Failf("C18.place", step, "byte %d of %s(len=%d rel=%d): got (pos=%d,val=%#x), model (pos=%d,val=%#x)", j, op.Op, op.Len, op.Rel, pos, b, at+int64(j), buf[j])
								return
							}
							j++
						}
					}
					// --- C18.count: returned count = bytes passed through
					if int64(n) != k {
						fail = engine.Failf("C18.count", step, "%s(len=%d rel=%d) returned n=%d but %d bytes passed through (err=%v)", op.Op, op.Len, op.Rel, n, k, err)
						return
					}
					// --- C18.err: error class, by cause
					if observedK && (op.Fault.Kind == "short_nil" || op.Fault.Kind == "short_nil_each") && k < mm {
						// a short count with a nil error from the underlying writer: what
						// error (if any) the section then reports is not stated
					} else if op.Len == 0 && refused && at < m.limit && at >= m.base {
						// an EMPTY request that lies inside THIS section but at/after the end
						// of the inner section it is nested over: the refusal could only come
						// from the underlying (inner) writer, and whether an empty request is
						// forwarded to the underlying writer at all is open — held back
					} else if op.Len == 0 && op.Op == "writeat" && op.Rel < 0 {
						// an EMPTY request at a negative offset: neither "at or beyond the
						// section end" nor inside the section — held back
					} else {
						// Zero-length requests included: "io.ErrShortWrite is returned
						// exactly when a request is truncated by, or STARTS AT OR BEYOND, the
						// section end" has no length qualifier — an empty Write with the
						// cursor at the end is refused, one inside the section is not. (The
						// simulated disk never fails a zero-length call, so whether an empty
						// request is forwarded to the underlying writer stays unobserved.)
						var want error
						switch {
						case refused:
							want = io.ErrShortWrite
							if op.Op == "writeat" && op.Rel < 0 {
								want = errAnyNonNil // which error a negative offset gives is held back
							}
						case derr != nil:
							want = derr
							if op.Fault != nil && op.Fault.Kind == "fail" && p.Capacity >= 0 && p.Capacity-at == op.Fault.Budget && cause(err) == simio.ErrNoSpace {
								want = simio.ErrNoSpace // both failure points coincide: either error
							}
						case truncated:
							want = io.ErrShortWrite
						}
						if !errMatches(err, want) {
							fail = engine.Failf("C18.err", step, "%s(len=%d rel=%d) returned err=%v, model expects %v (refused=%v truncated=%v underlying=%v)", op.Op, op.Len, op.Rel, err, want, refused, truncated, derr)
							return
						}
					}
					if op.Op == "write" {
						m.cur += k
					}
					// probes
					if truncated {
						st.Inc("probe.C18.write_truncated_by_limit")
						if derr != nil {
							st.Inc("probe.C18.underlying_error_while_truncated")
						}
					}
					if refused {
						st.Inc("probe.C18.write_refused_at_limit")
					}
					if k > 0 && m.cur == m.wlimit {
						st.Inc("probe.C18.write_ends_exactly_at_limit")
					}
				case "seek":
					var pos int64
					var err error
					pos, err = sw.Seek(op.Rel, op.Whence)
					var tgt int64
					valid := true
					switch op.Whence {
					case io.SeekStart:
						tgt = m.base + op.Rel
					case io.SeekCurrent:
						tgt = m.cur + op.Rel
					case io.SeekEnd:
						tgt = m.limit + op.Rel
					default:
						valid = false
					}
					c.Ev(wi, "seek", op.Rel, int64(op.Whence), pos)
					if !valid || tgt < m.base {
						if err == nil {
							fail = engine.Failf("C18.seek", step, "Seek(%d,%d) accepted (pos=%d) but model rejects it (valid whence=%v, target=%d < base=%d)", op.Rel, op.Whence, pos, valid, tgt, m.base)
							return
						}
						st.Inc("probe.C18.seek_rejected")
					} else {
						if err != nil || pos != tgt-m.base {
							fail = engine.Failf("C18.seek", step, "Seek(%d,%d) = (%d,%v), model expects (%d,nil) [base=%d cur=%d limit=%d]", op.Rel, op.Whence, pos, err, tgt-m.base, m.base, m.cur, m.limit)
							return
						}
						m.cur = tgt
						if tgt > m.limit {
							st.Inc("probe.C18.seek_past_end")
						}
					}
				case "size":
					if sz := sw.Size(); sz != w.N {
						fail = engine.Failf("C18.size", step, "Size() = %d, want %d", sz, w.N)
						return
					}
					c.Ev(wi, "size", w.N)
				}
				if h.EndOp() {
					c.FaultsFired++
				}
				c.LibCalls++
				// --- C18.late: "the returned count equals the bytes passed through":
				// whatever the call returned, nothing may reach the underlying writer
				// once it HAS returned (a slow underlying call that was abandoned
				// under a timeout still lands)
				if h.LateCalls > 0 {
					fail = engine.Failf("C18.late", step, "%s(len=%d) had returned, then %d more underlying call(s) arrived: %s", op.Op, op.Len, h.LateCalls, h.LateNote)
					return
				}
				if h.ForeignCalls > 0 {
					st.Inc("probe.C18.underlying_call_on_a_goroutine_of_the_library")
				}
				// --- C18.cursor: the observer seek reports the model's cursor
				observe := sw != nil
				switch w.Observe {
				case "never":
					observe = false
				case "some":
					observe = observe && engine.H(p.ContentSeed, uint64(step))%2 == 0
				}
				if observe {
					pos, err := sw.Seek(0, io.SeekCurrent)
					if err != nil || pos != m.cur-m.base {
						fail = engine.Failf("C18.cursor", step, "after %s(len=%d rel=%d whence=%d): Seek(0,SeekCurrent) = (%d,%v), model cursor %d", op.Op, op.Len, op.Rel, op.Whence, pos, err, m.cur-m.base)
						return
					}
				}
				c.Status.SetStep(uint64(step), 0)
				st.State(engine.HashU64(0, uint64(wi), uint64(m.cur-m.base), uint64(m.limit-m.base), uint64(disk.Accepted)))
			}
		})
	}
	if !sch.Run() {
		panic(engine.HarnessError{Msg: "section-ops: deadlock"})
	}
	for _, t := range p.Writers {
		_ = t
	}
	c.Switches = sch.NumSwitches()
	if fail != nil {
		return fail
	}
	// End of run: a call that arrives while no operation of its writer is in
	// flight (only code that has created timers is looked at this way)
	for wi, h := range handles {
		if h == nil {
			continue
		}
		if n, note := h.G.Late(); n > 0 {
			return engine.Failf("C18.late", -1, "end of run: writer %d: %d underlying call(s) outside any operation: %s", wi, n, note)
		}
	}
	// End of run: no byte anywhere on the disk is attributed to a writer that
	// does not own its position.
	for _, rc := range disk.Log {
		if len(rc.Data) == 0 {
			continue
		}
		o := owners[rc.Task]
		if rc.Off < o.base || rc.Off+int64(len(rc.Data)) > o.limit {
			return engine.Failf("C18.contain", -1, "end of run: writer %d [%d,%d) has bytes at [%d,%d)", rc.Task, o.base, o.limit, rc.Off, rc.Off+int64(len(rc.Data)))
		}
	}
	keys, vals := disk.FiredSorted()
	for i, k := range keys {
		st.Add("fault.fired."+k, int64(vals[i]))
	}
	if len(p.Writers) > 1 {
		st.Interleaving(sch.InterleavingHash())
	}
	return nil
}

var errAnyNonNil = errors.New("<any non-nil error>")

// cause follows Cause() and Unwrap() to the end: openacid/errors has only
// Cause(); a refactor to %w must not alarm.
func cause(err error) error {
	for i := 0; i < 32 && err != nil; i++ {
		switch e := err.(type) {
		case interface{ Cause() error }:
			if n := e.Cause(); n != nil && n != err {
				err = n
				continue
			}
		}
		if n := errors.Unwrap(err); n != nil {
			err = n
			continue
		}
		break
	}
	return err
}

func errMatches(got, want error) bool {
	if want == nil {
		return got == nil
	}
	if want == errAnyNonNil {
		return got != nil
	}
	if got == nil {
		return false
	}
	return cause(got) == want || errors.Is(got, want) || chainHas(got, want)
}

func (Section) Shrink(pl engine.Plan) []engine.Plan {
	p := pl.(*SectionPlan)
	var out []engine.Plan
	clone := func() *SectionPlan {
		b, _ := json.Marshal(p)
		var q SectionPlan
		_ = json.Unmarshal(b, &q)
		return &q
	}
	// drop a whole writer
	if len(p.Writers) > 1 {
		for i := range p.Writers {
			q := clone()
			q.Writers = append(q.Writers[:i], q.Writers[i+1:]...)
			out = append(out, q)
		}
	}
	// sequential schedule
	if p.Sched.Mode != "seq" {
		q := clone()
		q.Sched = engine.Schedule{Mode: "seq"}
		out = append(out, q)
	}
	if p.Capacity >= 0 {
		q := clone()
		q.Capacity = -1
		out = append(out, q)
	}
	if p.ErrKind != "" {
		q := clone()
		q.ErrKind = ""
		out = append(out, q)
	}
	for wi, w := range p.Writers {
		// drop op chunks: halves, quarters, singles
		for _, chunk := range []int{len(w.Ops) / 2, len(w.Ops) / 4, 1} {
			if chunk < 1 {
				continue
			}
			for s := 0; s+chunk <= len(w.Ops); s += chunk {
				if chunk == len(w.Ops) {
					continue
				}
				q := clone()
				q.Writers[wi].Ops = append(q.Writers[wi].Ops[:s], q.Writers[wi].Ops[s+chunk:]...)
				out = append(out, q)
			}
		}
		for oi, op := range w.Ops {
			if op.Stall > 0 {
				q := clone()
				q.Writers[wi].Ops[oi].Stall = 0
				out = append(out, q)
			}
			if op.Fault != nil {
				q := clone()
				q.Writers[wi].Ops[oi].Fault = nil
				out = append(out, q)
				if op.Fault.Sticky {
					q := clone()
					q.Writers[wi].Ops[oi].Fault.Sticky = false
					out = append(out, q)
				}
			}
			if op.Len > 1 {
				for _, nl := range []int{0, 1, op.Len / 2, op.Len - 1} {
					if nl != op.Len {
						q := clone()
						q.Writers[wi].Ops[oi].Len = nl
						if f := q.Writers[wi].Ops[oi].Fault; f != nil && f.Budget > int64(nl) {
							f.Budget = int64(nl)
						}
						out = append(out, q)
					}
				}
			}
			if op.Rel != 0 {
				for _, nr := range []int64{0, op.Rel / 2} {
					if nr != op.Rel {
						q := clone()
						q.Writers[wi].Ops[oi].Rel = nr
						out = append(out, q)
					}
				}
			}
		}
		if w.Inner != nil {
			q := clone()
			q.Writers[wi].Off += w.Inner.Off
			q.Writers[wi].Inner = nil
			out = append(out, q)
			if w.Inner.Off != 0 && len(p.Writers) == 1 {
				q := clone()
				q.Writers[wi].Inner.Off = 0
				out = append(out, q)
			}
		}
		if w.Off != 0 {
			q := clone()
			q.Writers[wi].Off = 0
			if len(q.Writers) == 1 {
				out = append(out, q)
			}
		}
	}
	return out
}

var _ = fmt.Sprintf
