//go:build !verifyield

package scen

import "verifsim/engine"

// YieldBuild reports whether the library under test was rewritten with
// statement-level yields (check.sh: build_yield).
const YieldBuild = false

func setSimHooks(sch *engine.Sched, stride int) {}
