//go:build !verifyield

package scen

// YieldBuild reports whether the library under test was rewritten with
// statement-level yields (check.sh: build_yield).
const YieldBuild = false

func setYieldHook(f func()) {}
