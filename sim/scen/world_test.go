package scen

import (
	"bytes"
	"reflect"
	"testing"

	"github.com/openacid/low/bitmap"
	"github.com/openacid/low/bitstr"
	"github.com/openacid/low/bitword"
	"github.com/openacid/low/bmtree"

	"verifsim/engine"
)

// The harness builds the C19 world with its OWN code (so that no function under
// test is warmed before the tasks start). This test pins that code to the
// library's on the unchanged tree.
func TestOwnWorldMatchesLibrary(t *testing.T) {
	r := engine.NewPRNG(42)
	for it := 0; it < 300; it++ {
		spec := genWorldSpec(r)
		for _, bs := range spec.Bitmaps {
			words := buildBitmapWords(bs)
			var pos []int32
			for i, wd := range words {
				for j := 0; j < 64; j++ {
					if wd>>uint(j)&1 == 1 {
						pos = append(pos, int32(i*64+j))
					}
				}
			}
			if got, want := ownIndexRank64(words, false), bitmap.IndexRank64(words); !reflect.DeepEqual(got, want) {
				t.Fatalf("IndexRank64: %v vs %v", got, want)
			}
			if got, want := ownIndexRank64(words, true), bitmap.IndexRank64(words, true); !reflect.DeepEqual(got, want) {
				t.Fatalf("IndexRank64 trailing")
			}
			if got, want := ownIndexRank128(words), bitmap.IndexRank128(words); !reflect.DeepEqual(got, want) {
				t.Fatalf("IndexRank128: %v vs %v (%d words)", got, want, len(words))
			}
			if got, want := ownIndexSelect32(pos), bitmap.IndexSelect32(words); !reflect.DeepEqual(got, want) {
				t.Fatalf("IndexSelect32: %v vs %v", got, want)
			}
		}
		for _, ks := range spec.Keys {
			for i, s := range buildKeys(ks) {
				for _, to := range []int32{int32(len(s) * 8), int32(len(s)*8) - int32(i%8)} {
					if to < 0 {
						continue
					}
					if got, want := ownBitStr(s, to), bitstr.New(s, 0, to); !bytes.Equal(got, want) {
						t.Fatalf("bitstr.New(%q,0,%d): %x vs %x", s, to, got, want)
					}
				}
				for _, w := range []int{1, 2, 4, 8} {
					if got, want := ownBitWords(s, w), bitword.BitWord[w].FromStr(s); !bytes.Equal(got, want) {
						t.Fatalf("bitword FromStr")
					}
				}
			}
		}
		for _, m := range spec.Masks {
			got, want := ownAllPaths(m), bmtree.AllPaths(m, 0, 1<<63)
			if len(got) != len(want) {
				t.Fatalf("AllPaths(%b): %d vs %d", m, len(got), len(want))
			}
			for i := range got {
				if got[i] != want[i] {
					t.Fatalf("AllPaths(%b)[%d]: %x vs %x", m, i, got[i], want[i])
				}
			}
		}
		for _, js := range spec.Joins {
			subs := make([]uint64, js.N)
			for i := range subs {
				subs[i] = engine.H(js.Seed, uint64(i))
			}
			if got, want := ownJoin(subs, js.Width), bitmap.Join(subs, int32(js.Width)); !reflect.DeepEqual(got, want) {
				t.Fatalf("Join width %d: %x vs %x", js.Width, got, want)
			}
		}
	}
}
