package scen

import (
	"bytes"
	"encoding/json"
	"io"

	proto "github.com/golang/protobuf/proto"
	"github.com/openacid/low/iohelper"
	"github.com/openacid/low/pbcmpl"

	"verifsim/engine"
	"verifsim/simio"
)

// ---------------------------------------------------------------------------
// C06 — scenario "frames-clean" (DESIGN §4.1): the fault-free configuration.
//
// 1–3 writer tasks marshal 1–6 frames each into a plain writer, an AtToWriter
// or a SectionWriter (sharing ONE simulated disk, interleaved at every
// WriteAt). Then every destination is read back by 2–4 reader passes, each with
// a different chunking, stall pattern and EOF style; one pass may go through
// iohelper.AtToReader over the disk.
// ---------------------------------------------------------------------------

type FramesPlan struct {
	Writers []FrameWriter   `json:"writers"`
	Sched   engine.Schedule `json:"sched"`
}

type FrameWriter struct {
	Dest   string     `json:"dest"` // writer | at | section
	Off    int64      `json:"off,omitempty"`
	Slack  int64      `json:"slack,omitempty"` // section length = bytes needed + slack
	Msgs   []MsgSpec  `json:"msgs"`
	Passes []ReadPass `json:"passes"`
	// SlowMsg > 0: the first non-empty underlying write of the Marshal call for
	// message number SlowMsg (1-based) is slow by SlowNs of simulated time
	SlowMsg int   `json:"slow_msg,omitempty"`
	SlowNs  int64 `json:"slow_ns,omitempty"`
}

type ReadPass struct {
	Policy    simio.ChunkPolicy `json:"policy"`
	StallSeed uint64            `json:"stall_seed,omitempty"`
	StallDen  int               `json:"stall_den,omitempty"`
	Piggyback bool              `json:"piggyback,omitempty"`
	Via       string            `json:"via,omitempty"` // "" (bytes) | "atreader"
	// Reuse: decode every frame of a kind into ONE destination message (it
	// still holds the previous frame's contents), as a reader loop would.
	Reuse bool `json:"reuse,omitempty"`
	// Wrap: the concrete reader type the stream is handed over as (source.go).
	Wrap string `json:"wrap,omitempty"`
	// HeaderFirst != 0: some frames of the pass (chosen by this seed) are read
	// the OTHER documented way — ReadHeader, then the caller reads the
	// BodySize bytes itself — on the same reader the remaining frames are
	// Unmarshal'ed from: every call still handles exactly one header / frame.
	HeaderFirst uint64 `json:"header_first,omitempty"`
	// SlowFrame > 0: the first Read of the library call that handles frame
	// number SlowFrame (1-based) of this pass is SLOW: SlowNs of simulated time
	// pass before the stream answers (a slow reader is as benign as a chunking
	// one: nothing about the result may change, and no Read may arrive once the
	// call has returned)
	SlowFrame int   `json:"slow_frame,omitempty"`
	SlowNs    int64 `json:"slow_ns,omitempty"`
}

type FramesClean struct{}

func (FramesClean) Name() string     { return "frames-clean" }
func (FramesClean) Property() string { return "C06" }

func (FramesClean) Decode(raw []byte) (engine.Plan, error) {
	var p FramesPlan
	if err := json.Unmarshal(raw, &p); err != nil {
		return nil, err
	}
	return &p, nil
}

func genPolicy(r *engine.PRNG) simio.ChunkPolicy {
	switch r.Intn(6) {
	case 0:
		return simio.ChunkPolicy{Kind: "whole"}
	case 1:
		return simio.ChunkPolicy{Kind: "one"}
	case 2:
		return simio.ChunkPolicy{Kind: "fixed", N: r.PickInt(2, 3, 7, 16, 31, 32, 33, 100)}
	default:
		return simio.ChunkPolicy{Kind: "hashed", N: r.PickInt(2, 5, 40, 700), Seed: r.Uint64()}
	}
}

// genBigPolicy: chunkings for streams that hold a frame around 1 MiB.
func genBigPolicy(r *engine.PRNG) simio.ChunkPolicy {
	switch r.Intn(4) {
	case 0:
		return simio.ChunkPolicy{Kind: "whole"}
	case 1:
		return simio.ChunkPolicy{Kind: "fixed", N: r.PickInt(4096, 65536, 100000, 1<<20)}
	default:
		return simio.ChunkPolicy{Kind: "hashed", N: r.PickInt(5000, 70000, 300000), Seed: r.Uint64()}
	}
}

func genPass(r *engine.PRNG) ReadPass {
	p := ReadPass{Policy: genPolicy(r), Piggyback: r.Chance(1, 2), Reuse: r.Chance(1, 2), Wrap: wrapKinds[r.Intn(len(wrapKinds))]}
	if r.Chance(1, 3) {
		p.StallSeed, p.StallDen = r.Uint64(), r.PickInt(2, 3, 5)
	}
	if r.Chance(1, 4) {
		p.HeaderFirst = r.Uint64() | 1
	}
	return p
}

func (FramesClean) Generate(seed uint64, tier string) engine.Plan {
	r := engine.NewPRNG(seed)
	p := &FramesPlan{}
	nw := r.PickInt(1, 1, 1, 2, 2, 3)
	next := r.PickInt64(0, 0, 1, 7, 4096, 1<<40)
	maxLen := 8192
	if r.Chance(2, 3) {
		maxLen = 300 // most runs stay small and fast
	}
	for wi := 0; wi < nw; wi++ {
		w := FrameWriter{Dest: r.PickStr("writer", "at", "section", "section")}
		if w.Dest == "at" && wi != nw-1 {
			w.Dest = "section" // an endless destination must be the last on the disk
		}
		nm := 1 + r.Intn(6)
		if deep(tier) && r.Chance(1, 10) {
			nm = 6 + r.Intn(10) // thorough tier: long streams
		}
		total := int64(0)
		bigAt := -1
		if r.Chance(1, 80) {
			// one frame around/above the 1 MiB incremental-read threshold, usually
			// followed by another frame (what a reader that over-consumes would eat)
			if nm < 2 && r.Chance(3, 4) {
				nm = 2 + r.Intn(2)
			}
			bigAt = r.Intn(nm)
			if r.Chance(1, 2) {
				bigAt = 0
			}
		}
		for i := 0; i < nm; i++ {
			m := genMsg(r, maxLen)
			if i == bigAt {
				m = genBigMsg(r)
			}
			if m.Kind == "list" && r.Chance(1, 2) {
				m.Entries = 40 // (see MsgSpec.Entries; many buckets: two encodings almost never agree)
			}
			m.RefusedBefore = genRefused(r)
			w.Msgs = append(w.Msgs, m)
			total += int64(32 + m.bodyBound())
		}
		w.Off = next
		w.Slack = r.PickInt64(0, 1, 100)
		if w.Slack == 0 && w.Msgs[nm-1].Len == 0 {
			// A SectionWriter refuses even an empty Write at its end, and Marshal
			// issues one for an empty body: that combination is a writer that
			// fails (C07/C18 territory), not a healthy destination. Keep room.
			w.Slack = 1
		}
		if w.Dest != "writer" {
			next = w.Off + total + w.Slack + r.PickInt64(0, 0, 5)
		}
		np := 2 + r.Intn(3)
		for i := 0; i < np; i++ {
			ps := genPass(r)
			if bigAt >= 0 {
				ps.Policy = genBigPolicy(r) // byte-at-a-time over a megabyte costs too much
				if np > 2 {
					np = 2
				}
			}
			if r.Chance(1, 6) {
				ps.SlowFrame = 1 + r.Intn(nm)
				ps.SlowNs = r.PickInt64(1000000, 200000000, 2000000000, 60000000000, 3600000000000)
			}
			w.Passes = append(w.Passes, ps)
		}
		if r.Chance(1, 6) {
			w.SlowMsg = 1 + r.Intn(nm)
			w.SlowNs = r.PickInt64(1000000, 200000000, 2000000000, 60000000000, 3600000000000)
		}
		if w.Dest != "writer" && r.Chance(1, 2) {
			w.Passes[r.Intn(np)].Via = "atreader"
		}
		p.Writers = append(p.Writers, w)
	}
	p.Sched = genSchedule(r, nw)
	return p
}

// callMarshal runs pbcmpl.Marshal, converting a panic into a value.
func callMarshal(w io.Writer, m proto.Message) (n int64, err error, pan interface{}) {
	defer func() {
		if r := recover(); r != nil {
			if he, ok := r.(engine.HarnessError); ok {
				panic(he)
			}
			pan = r
		}
	}()
	n, err = pbcmpl.Marshal(w, m)
	return
}

func callUnmarshal(r io.Reader, m proto.Message) (n int64, ver string, err error, pan interface{}) {
	defer func() {
		if r := recover(); r != nil {
			if he, ok := r.(engine.HarnessError); ok {
				panic(he)
			}
			pan = r
		}
	}()
	n, ver, err = pbcmpl.Unmarshal(r, m)
	return
}

func callReadHeader(r io.Reader) (n int64, h pbcmpl.Header, err error, pan interface{}) {
	defer func() {
		if r := recover(); r != nil {
			if he, ok := r.(engine.HarnessError); ok {
				panic(he)
			}
			pan = r
		}
	}()
	n, h, err = pbcmpl.ReadHeader(r)
	return
}

// checkFrameWritten is the C06 oracle for one successful Marshal: got is what
// the destination received during the call.
func checkFrameWritten(inv string, step int, spec MsgSpec, msg proto.Message, n int64, err error, pan interface{}, got []byte) *engine.Failure {
	if pan != nil {
		return engine.Failf(inv+".panic", step, "Marshal panicked: %v", pan)
	}
	if err != nil {
		return engine.Failf(inv+".marshal_err", step, "Marshal into a healthy destination returned error %v", err)
	}
	body := spec.Body()
	if n != int64(len(got)) {
		return engine.Failf(inv+".count", step, "Marshal returned n=%d but the destination received %d bytes", n, len(got))
	}
	if sz := pbcmpl.Size(msg); int64(sz) != n {
		return engine.Failf(inv+".size", step, "Size(msg)=%d but Marshal wrote %d bytes", sz, n)
	}
	hs := pbcmpl.HeaderSize(msg)
	if hs != 32 {
		return engine.Failf(inv+".headersize", step, "HeaderSize(msg)=%d, want 32", hs)
	}
	if n != int64(hs+len(body)) {
		return engine.Failf(inv+".size", step, "Marshal wrote %d bytes, want HeaderSize(32)+encoded length(%d)", n, len(body))
	}
	// the bytes after the header decode to an equal message
	dec := spec.Empty()
	if e := proto.Unmarshal(got[32:], dec); e != nil || !spec.SameContent(dec) {
		return engine.Failf(inv+".body", step, "bytes [32:] of the frame do not decode to the original message (err=%v)", e)
	}
	// ReadHeader over the received bytes
	hn, h, herr, hpan := callReadHeader(bytes.NewReader(got))
	if hpan != nil {
		return engine.Failf(inv+".panic", step, "ReadHeader panicked: %v", hpan)
	}
	if herr != nil || hn != 32 || h == nil {
		return engine.Failf(inv+".readheader", step, "ReadHeader on a written frame = (%d, %v, %v), want (32, header, nil)", hn, h, herr)
	}
	if !verOK(h.GetVersion(), spec.WantVersions()) {
		return engine.Failf(inv+".version", step, "ReadHeader version %q, want one of %q", h.GetVersion(), spec.WantVersions())
	}
	if h.GetHeaderSize() != 32 || h.GetBodySize() != int64(len(body)) {
		return engine.Failf(inv+".readheader", step, "ReadHeader sizes (header=%d, body=%d), want (32, %d)", h.GetHeaderSize(), h.GetBodySize(), len(body))
	}
	return nil
}

// readAll reads frames from s one per call and checks each against specs.
// It is the reader half of the C06 oracle.
func readAllFrames(inv string, stepBase int, s *simio.Stream, wrap string, data []byte, specs []MsgSpec, frameLens []int64, c *engine.RunCtx, task int, reuse bool, headerFirst uint64, slowFrame int, slowNs int64) *engine.Failure {
	src := newSource(wrap, s, data)
	// every call into the stream is bracketed: a Read that arrives while no call
	// is in flight belongs to a library call that has already returned
	endOp := func(step int, what string) *engine.Failure {
		if late, note, _ := s.EndOp(); late > 0 {
			return engine.Failf(inv+".late_read", step, "%s had returned, then %d more Read call(s) arrived on its reader: %s", what, late, note)
		}
		return nil
	}
	if wrap != "" {
		c.Stats.Inc("probe.C06.source_is_" + wrap)
	}
	dest := map[string]proto.Message{}
	// what each call returned is KEPT until the end of the pass: a returned
	// version string (or a decoded message that is not being reused) is a value
	// and must still be what it was after later calls
	keptVer := make([]string, len(specs))
	keptMsg := make([]proto.Message, len(specs))
	for i, spec := range specs {
		step := stepBase + i
		msg := spec.Empty()
		if reuse {
			if d, ok := dest[spec.Kind]; ok {
				msg = d
				c.Stats.Inc("probe.C06.destination_message_reused")
			} else {
				dest[spec.Kind] = msg
			}
		}
		before := src.pos()
		src.beginCall()
		stall := int64(0)
		if slowFrame == i+1 {
			stall = slowNs
			c.Stats.Inc("fault.configured.io.stall")
		}
		s.BeginOp(stall)
		if headerFirst != 0 && engine.H(headerFirst, uint64(i))%3 == 0 {
			// ReadHeader, then the body by hand
			c.Stats.Inc("probe.C06.frame_read_as_ReadHeader_plus_body_by_hand")
			c.Status.SetStep(uint64(step), 1)
			hn, h, herr, hpan := callReadHeader(src.r)
			c.Status.SetStep(uint64(step), 0)
			c.LibCalls++
			if f := endOp(step, "ReadHeader"); f != nil {
				return f
			}
			c.EvS(task, "readheader", "", hn, int64(src.pos()-before))
			if hpan != nil {
				return engine.Failf(inv+".panic", step, "ReadHeader of frame %d panicked: %v", i, hpan)
			}
			if herr != nil || hn != 32 || h == nil {
				return engine.Failf(inv+".readheader", step, "ReadHeader at the start of complete frame %d = (%d, %v, %v), want (32, header, nil)", i, hn, h, herr)
			}
			if int64(src.pos()-before) != 32 {
				return engine.Failf(inv+".consumed", step, "ReadHeader of frame %d returned n=32 but consumed %d bytes of the reader it was given (%q)", i, src.pos()-before, wrap)
			}
			if !verOK(h.GetVersion(), spec.WantVersions()) || h.GetHeaderSize() != 32 || h.GetBodySize() != frameLens[i]-32 {
				return engine.Failf(inv+".readheader", step, "ReadHeader of frame %d reports (version %q, header %d, body %d), want (one of %q, 32, %d)", i, h.GetVersion(), h.GetHeaderSize(), h.GetBodySize(), spec.WantVersions(), frameLens[i]-32)
			}
			body := make([]byte, h.GetBodySize())
			s.BeginOp(0)
			_, e := io.ReadFull(src.r, body)
			s.EndOp()
			if e != nil {
				panic(engine.HarnessError{Msg: "reading a body by hand failed: " + e.Error()})
			}
			if e := proto.Unmarshal(body, msg); e != nil || !spec.SameContent(msg) {
				return engine.Failf(inv+".body", step, "the %d bytes after the header ReadHeader returned for frame %d do not decode to the original message (err=%v)", len(body), i, e)
			}
			keptVer[i] = h.GetVersion()
			continue
		}
		c.Status.SetStep(uint64(step), 1)
		n, ver, err, pan := callUnmarshal(src.r, msg)
		c.Status.SetStep(uint64(step), 0)
		c.LibCalls++
		if f := endOp(step, "Unmarshal"); f != nil {
			return f
		}
		c.EvS(task, "unmarshal", ver, n, int64(src.pos()-before))
		if pan != nil {
			if la, ok := pan.(simio.LivenessAbort); ok {
				return engine.Failf(inv+".live", step, "Unmarshal kept reading a dead stream (%d reads)", la.Reads)
			}
			return engine.Failf(inv+".panic", step, "Unmarshal of frame %d panicked: %v", i, pan)
		}
		if err != nil {
			return engine.Failf(inv+".unmarshal_err", step, "Unmarshal of complete frame %d returned error %v (n=%d) [chunking %+v]", i, err, n, s.Policy)
		}
		if n != frameLens[i] {
			return engine.Failf(inv+".read_count", step, "Unmarshal of frame %d returned n=%d, frame is %d bytes", i, n, frameLens[i])
		}
		if int64(src.pos()-before) != n {
			return engine.Failf(inv+".consumed", step, "Unmarshal of frame %d returned n=%d but consumed %d bytes of the reader it was given (%q; must consume exactly one frame)", i, n, src.pos()-before, wrap)
		}
		if !verOK(ver, spec.WantVersions()) {
			return engine.Failf(inv+".version", step, "Unmarshal of frame %d returned version %q, want one of %q", i, ver, spec.WantVersions())
		}
		if !spec.SameContent(msg) {
			return engine.Failf(inv+".message", step, "Unmarshal of frame %d yielded a different message", i)
		}
		keptVer[i] = ver
		if !reuse {
			keptMsg[i] = msg
		}
	}
	for i, spec := range specs {
		if !verOK(keptVer[i], spec.WantVersions()) {
			return engine.Failf(inv+".version.retained", stepBase+i, "the version string Unmarshal returned for frame %d was right when returned but reads %q after the later calls of the pass (want one of %q): it aliases memory that is reused", i, keptVer[i], spec.WantVersions())
		}
		if keptMsg[i] != nil && !spec.SameContent(keptMsg[i]) {
			return engine.Failf(inv+".message.retained", stepBase+i, "the message decoded from frame %d changed after the later calls of the pass", i)
		}
	}
	return nil
}

func (FramesClean) Execute(pl engine.Plan, c *engine.RunCtx) *engine.Failure {
	p := pl.(*FramesPlan)
	disk := simio.NewDisk()
	sch := engine.NewSched(p.Sched)
	var fail *engine.Failure
	st := c.Stats
	c.Tasks = len(p.Writers)
	type wstate struct {
		written   []byte  // concatenation of what the destination received
		frameLens []int64 // per frame
		base      int64
		limit     int64
	}
	ws := make([]*wstate, len(p.Writers))
	for wi := range p.Writers {
		wi := wi
		w := p.Writers[wi]
		ws[wi] = &wstate{}
		sch.Spawn(func(t *engine.Task) {
			state := ws[wi]
			var dst io.Writer
			var sw *simio.Writer
			var h *simio.Handle
			need := int64(0)
			bodies := make([][]byte, len(w.Msgs))
			for i, m := range w.Msgs {
				bodies[i] = m.Body()
				need += 32 + int64(len(bodies[i]))
			}
			switch w.Dest {
			case "writer":
				sw = simio.NewWriter()
				sw.Yield = t.Yield
				dst = sw
			case "at":
				h = disk.Handle(wi, t.Yield)
				dst = iohelper.AtToWriter(h, w.Off)
				state.base, state.limit = w.Off, int64(^uint64(0)>>1)
			case "section":
				h = disk.Handle(wi, t.Yield)
				dst = iohelper.NewSectionWriter(h, w.Off, need+w.Slack)
				state.base, state.limit = w.Off, w.Off+need+w.Slack
			}
			pos := int64(0)
			for i, spec := range w.Msgs {
				if fail != nil {
					return
				}
				step := wi*1000 + i
				if rm := spec.Refused(); rm != nil {
					// a call the library refuses, on a writer of its own, recovered by
					// the caller (a per-request recover): it must leave nothing behind
					c.Status.SetStep(uint64(step), 1)
					_, _, _ = callMarshal(simio.NewWriter(), rm)
					c.Status.SetStep(uint64(step), 0)
					c.LibCalls++
					st.Inc("probe.C06.refused_marshal_before_a_frame." + spec.RefusedBefore)
				}
				msg := spec.Build()
				var before int
				stall := int64(0)
				if w.SlowMsg == i+1 {
					stall = w.SlowNs
					st.Inc("fault.configured.io.stall")
				}
				if sw != nil {
					before = len(sw.Got)
					sw.BeginOp(stall)
				} else {
					h.BeginOp(simio.Arm{StallNs: stall})
				}
				// Size/HeaderSize are usually asked BEFORE the frame is written (in a
				// cold process: before anything else of the package has run); for a
				// quarter of the messages only afterwards (Marshal meets a message that
				// was never sized); for another quarter Size is asked while nested
				// fields are still in an earlier state, the message is then completed
				// and written (sizes a protobuf message caches are out of date).
				mode := spec.SizeMode()
				var sizeBefore, hsBefore int64
				switch mode {
				case "stale":
					if finish := spec.Unfinished(msg); finish != nil {
						_ = pbcmpl.Size(msg)
						finish()
						st.Inc("probe.C06.sized_then_completed_then_written")
					}
					mode = "after"
				case "before":
					sizeBefore, hsBefore = int64(pbcmpl.Size(msg)), int64(pbcmpl.HeaderSize(msg))
				}
				c.Status.SetStep(uint64(step), 1)
				n, err, pan := callMarshal(dst, msg)
				c.Status.SetStep(uint64(step), 0)
				c.LibCalls++
				late, lateNote := 0, ""
				if sw != nil {
					late, lateNote, _ = sw.EndOp()
				} else {
					h.EndOp()
					late, lateNote = h.LateCalls, h.LateNote
				}
				if late > 0 {
					fail = engine.Failf("C06.late_write", step, "Marshal of frame %d had returned (n=%d, err=%v), then %d more call(s) reached its writer: %s", i, n, err, late, lateNote)
					return
				}
				st.Inc("op.marshal." + spec.Kind)
				when := "before"
				if mode == "after" {
					when = "after"
					sizeBefore, hsBefore = int64(pbcmpl.Size(msg)), int64(pbcmpl.HeaderSize(msg))
				}
				if pan == nil && err == nil && (sizeBefore != n || hsBefore != 32) {
					fail = engine.Failf("C06.size", step, "asked %s writing, Size(msg)=%d and HeaderSize(msg)=%d; Marshal wrote %d bytes", when, sizeBefore, hsBefore, n)
					return
				}
				var got []byte
				if sw != nil {
					got = sw.Got[before:]
				} else {
					for _, rc := range h.OpRecv() {
						if len(rc.Data) == 0 {
							continue
						}
						if rc.Off != w.Off+pos+int64(len(got)) {
							fail = engine.Failf("C06.place", step, "frame %d: bytes arrived at disk offset %d, expected %d (frames must be laid back to back from %d)", i, rc.Off, w.Off+pos+int64(len(got)), w.Off)
							return
						}
						got = append(got, rc.Data...)
					}
				}
				c.Ev(wi, "marshal", int64(spec.Len), n, int64(len(got)))
				if f := checkFrameWritten("C06", step, spec, msg, n, err, pan, got); f != nil {
					fail = f
					return
				}
				pos += n
				state.written = append(state.written, got...)
				state.frameLens = append(state.frameLens, n)
				if len(bodies[i]) == 0 {
					st.Inc("probe.C06.empty_body")
				}
				if len(bodies[i]) > 1<<20 {
					st.Inc("probe.C06.body_above_1MiB")
					if i+1 < len(w.Msgs) {
						st.Inc("probe.C06.frame_follows_a_body_above_1MiB")
					}
				}
				if spec.Versioned && len(spec.Version()) == 16 {
					st.Inc("probe.C06.version_16_bytes")
				}
				if spec.Versioned && bytes.IndexByte([]byte(spec.Version()), 0) >= 0 {
					st.Inc("probe.C06.version_interior_nul")
				}
				st.State(engine.HashU64(0, uint64(wi), uint64(pos), uint64(i)))
			}
		})
	}
	if !sch.Run() {
		panic(engine.HarnessError{Msg: "frames-clean: deadlock"})
	}
	c.Switches = sch.NumSwitches()
	if fail != nil {
		return fail
	}
	if len(p.Writers) > 1 {
		st.Interleaving(sch.InterleavingHash())
	}
	// Disk: the image of each section equals the concatenation of its task's
	// frames, and no byte of the disk log lies outside its writer's section.
	for _, rc := range disk.Log {
		s := ws[rc.Task]
		if rc.Offered > 0 && (rc.Off < s.base || rc.Off+int64(rc.Offered) > s.limit) {
			return engine.Failf("C06.contain", -1, "writer %d wrote [%d,%d) outside its section [%d,%d)", rc.Task, rc.Off, rc.Off+int64(rc.Offered), s.base, s.limit)
		}
	}
	for wi, w := range p.Writers {
		if w.Dest == "writer" {
			continue
		}
		img := disk.Bytes(w.Off, len(ws[wi].written))
		if !bytes.Equal(img, ws[wi].written) {
			return engine.Failf("C06.image", -1, "disk image of writer %d's section differs from the concatenation of its frames (another writer overwrote it?)", wi)
		}
	}
	// Reader passes.
	policies := map[string]bool{}
	for wi, w := range p.Writers {
		s := ws[wi]
		for pi, pass := range w.Passes {
			var stream *simio.Stream
			if pass.Via == "atreader" && w.Dest != "writer" {
				h := disk.Handle(100+wi, nil)
				stream = simio.NewStreamOver(iohelper.AtToReader(h, w.Off), pass.Policy)
				st.Inc("probe.C06.pass_via_AtToReader")
			} else {
				stream = simio.NewStream(s.written, pass.Policy)
			}
			stream.StallSeed, stream.StallDen, stream.Piggyback = pass.StallSeed, pass.StallDen, pass.Piggyback
			policies[pass.Policy.Kind] = true
			wrap := pass.Wrap
			if pass.Via == "atreader" && (wrap == "bytesreader" || wrap == "bytesbuffer" || wrap == "osfile") {
				wrap = "" // keep the real AtToReader in the path
			}
			if f := readAllFrames("C06", 100000+wi*10000+pi*100, stream, wrap, s.written, w.Msgs, s.frameLens, c, wi, pass.Reuse, pass.HeaderFirst, pass.SlowFrame, pass.SlowNs); f != nil {
				return f
			}
			if len(w.Msgs) > 1 {
				st.Inc("probe.C06.multi_frame_stream_read")
			}
			for k, v := range stream.Fired {
				st.Add("fault.fired."+k, int64(v)) // benign environment nondeterminism (chunking/stalls), counted like faults
			}
		}
	}
	c.Policies = len(policies)
	return nil
}

func (FramesClean) Shrink(pl engine.Plan) []engine.Plan {
	p := pl.(*FramesPlan)
	var out []engine.Plan
	clone := func() *FramesPlan {
		b, _ := json.Marshal(p)
		var q FramesPlan
		_ = json.Unmarshal(b, &q)
		return &q
	}
	if len(p.Writers) > 1 {
		for i := range p.Writers {
			q := clone()
			q.Writers = append(q.Writers[:i], q.Writers[i+1:]...)
			out = append(out, q)
		}
	}
	if p.Sched.Mode != "seq" {
		q := clone()
		q.Sched = engine.Schedule{Mode: "seq"}
		out = append(out, q)
	}
	for wi, w := range p.Writers {
		if len(w.Msgs) > 1 {
			for i := range w.Msgs {
				q := clone()
				q.Writers[wi].Msgs = append(q.Writers[wi].Msgs[:i], q.Writers[wi].Msgs[i+1:]...)
				out = append(out, q)
			}
		}
		if len(w.Passes) > 1 {
			for i := range w.Passes {
				q := clone()
				q.Writers[wi].Passes = append(q.Writers[wi].Passes[:i], q.Writers[wi].Passes[i+1:]...)
				out = append(out, q)
			}
		}
		if w.SlowMsg != 0 {
			q := clone()
			q.Writers[wi].SlowMsg, q.Writers[wi].SlowNs = 0, 0
			out = append(out, q)
		}
		if w.Dest != "writer" {
			q := clone()
			q.Writers[wi].Dest = "writer"
			for i := range q.Writers[wi].Passes {
				q.Writers[wi].Passes[i].Via = ""
			}
			out = append(out, q)
		}
		if w.Off != 0 && len(p.Writers) == 1 {
			q := clone()
			q.Writers[wi].Off = 0
			out = append(out, q)
		}
		for i, m := range w.Msgs {
			if m.Len > 0 {
				for _, nl := range []int{0, 1, m.Len / 2, 1<<20 + 1} {
					if nl > m.Len {
						continue
					}
					if nl != m.Len {
						q := clone()
						q.Writers[wi].Msgs[i].Len = nl
						out = append(out, q)
					}
				}
			}
			if m.Unknown {
				q := clone()
				q.Writers[wi].Msgs[i].Unknown = false
				out = append(out, q)
			}
			if m.Versioned {
				q := clone()
				q.Writers[wi].Msgs[i].Versioned = false
				q.Writers[wi].Msgs[i].VerHex = ""
				out = append(out, q)
			}
			if m.Kind != "bytes" {
				q := clone()
				q.Writers[wi].Msgs[i].Kind = "bytes"
				out = append(out, q)
			}
		}
		for i, ps := range w.Passes {
			if ps.Policy.Kind != "whole" {
				q := clone()
				q.Writers[wi].Passes[i].Policy = simio.ChunkPolicy{Kind: "whole"}
				out = append(out, q)
			}
			if ps.Reuse {
				q := clone()
				q.Writers[wi].Passes[i].Reuse = false
				out = append(out, q)
			}
			if ps.SlowFrame != 0 {
				q := clone()
				q.Writers[wi].Passes[i].SlowFrame, q.Writers[wi].Passes[i].SlowNs = 0, 0
				out = append(out, q)
			}
			if ps.Wrap != "" {
				q := clone()
				q.Writers[wi].Passes[i].Wrap = ""
				out = append(out, q)
			}
			if ps.StallDen != 0 || ps.Piggyback {
				q := clone()
				q.Writers[wi].Passes[i].StallDen, q.Writers[wi].Passes[i].StallSeed, q.Writers[wi].Passes[i].Piggyback = 0, 0, false
				out = append(out, q)
			}
		}
	}
	return out
}
