package scen

import (
	"bufio"
	"bytes"
	"io"
	"os"

	"verifsim/engine"
	"verifsim/simio"
)

// source is what is handed to the library as its io.Reader: the simulated
// stream itself, or the stream behind one of the concrete reader types real
// callers pass (an implementation may take a type-specific fast path for
// *bufio.Reader, *bytes.Reader, *bytes.Buffer: Peek/Discard, ReadByte, WriteTo,
// Len …). pos() is the number of bytes the LIBRARY has consumed from that
// reader — for a bufio.Reader that is what it pulled from the stream minus
// what still sits in its buffer.
type source struct {
	r      io.Reader
	pos    func() int
	stream *simio.Stream // nil when the wrapper replaces the stream entirely
}

// wrapKinds are the plan values of a source wrapper.
var wrapKinds = []string{"", "", "", "bufio16", "bufio64", "bufio4096", "bytesreader", "bytesbuffer", "osfile"}

// lastSrcFile is the temporary file behind the most recent "osfile" source; it
// is closed when the next one is made (sources are used one after another).
var lastSrcFile *os.File

// newSource wraps s. For "bytesreader"/"bytesbuffer" the stream's effective
// content (after its cut; an injected error cannot be expressed) is copied into
// the concrete type and chunking does not apply.
func newSource(kind string, s *simio.Stream, data []byte) source {
	switch kind {
	case "bufio16", "bufio64", "bufio4096":
		size := map[string]int{"bufio16": 16, "bufio64": 64, "bufio4096": 4096}[kind]
		br := bufio.NewReaderSize(s, size)
		return source{r: br, pos: func() int { return s.Pos - br.Buffered() }, stream: s}
	case "bytesreader":
		d := data
		if s.Cut >= 0 && s.Cut < len(d) {
			d = d[:s.Cut]
		}
		if s.ErrAt >= 0 {
			break // not expressible: fall through to the raw stream
		}
		br := bytes.NewReader(d)
		return source{r: br, pos: func() int { return len(d) - br.Len() }}
	case "bytesbuffer":
		d := data
		if s.Cut >= 0 && s.Cut < len(d) {
			d = d[:s.Cut]
		}
		if s.ErrAt >= 0 {
			break
		}
		bb := bytes.NewBuffer(append([]byte(nil), d...))
		return source{r: bb, pos: func() int { return len(d) - bb.Len() }}
	case "osfile":
		// a REAL regular file (already unlinked) holding the stream's effective
		// content: the one reader type that can tell how much is left by Stat/Seek
		d := data
		if s.Cut >= 0 && s.Cut < len(d) {
			d = d[:s.Cut]
		}
		if s.ErrAt >= 0 {
			break
		}
		if lastSrcFile != nil {
			_ = lastSrcFile.Close()
			lastSrcFile = nil
		}
		f, err := os.CreateTemp("", "verif-src-*")
		if err != nil {
			panic(engine.HarnessError{Msg: "temporary file for a reader source: " + err.Error()})
		}
		_ = os.Remove(f.Name())
		if _, err := f.Write(d); err != nil {
			panic(engine.HarnessError{Msg: "temporary file for a reader source: " + err.Error()})
		}
		if _, err := f.Seek(0, io.SeekStart); err != nil {
			panic(engine.HarnessError{Msg: "temporary file for a reader source: " + err.Error()})
		}
		lastSrcFile = f
		return source{r: f, pos: func() int {
			q, _ := f.Seek(0, io.SeekCurrent)
			return int(q)
		}}
	case "":
	default:
		panic(engine.HarnessError{Msg: "unknown source wrapper " + kind})
	}
	return source{r: s, pos: func() int { return s.Pos }, stream: s}
}

func (src source) beginCall() {
	if src.stream != nil {
		src.stream.BeginCall()
	}
}
