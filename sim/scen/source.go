package scen

import (
	"bufio"
	"bytes"
	"io"

	"verifsim/engine"
	"verifsim/simio"
)

// source is what is handed to the library as its io.Reader: the simulated
// stream itself, or the stream behind one of the concrete reader types real
// callers pass (an implementation may take a type-specific fast path for
// *bufio.Reader, *bytes.Reader, *bytes.Buffer: Peek/Discard, ReadByte, WriteTo,
// Len …). pos() is the number of bytes the LIBRARY has consumed from that
// reader — for a bufio.Reader that is what it pulled from the stream minus
// what still sits in its buffer.
type source struct {
	r      io.Reader
	pos    func() int
	stream *simio.Stream // nil when the wrapper replaces the stream entirely
}

// wrapKinds are the plan values of a source wrapper.
var wrapKinds = []string{"", "", "", "bufio16", "bufio64", "bufio4096", "bytesreader", "bytesbuffer"}

// newSource wraps s. For "bytesreader"/"bytesbuffer" the stream's effective
// content (after its cut; an injected error cannot be expressed) is copied into
// the concrete type and chunking does not apply.
func newSource(kind string, s *simio.Stream, data []byte) source {
	switch kind {
	case "bufio16", "bufio64", "bufio4096":
		size := map[string]int{"bufio16": 16, "bufio64": 64, "bufio4096": 4096}[kind]
		br := bufio.NewReaderSize(s, size)
		return source{r: br, pos: func() int { return s.Pos - br.Buffered() }, stream: s}
	case "bytesreader":
		d := data
		if s.Cut >= 0 && s.Cut < len(d) {
			d = d[:s.Cut]
		}
		if s.ErrAt >= 0 {
			break // not expressible: fall through to the raw stream
		}
		br := bytes.NewReader(d)
		return source{r: br, pos: func() int { return len(d) - br.Len() }}
	case "bytesbuffer":
		d := data
		if s.Cut >= 0 && s.Cut < len(d) {
			d = d[:s.Cut]
		}
		if s.ErrAt >= 0 {
			break
		}
		bb := bytes.NewBuffer(append([]byte(nil), d...))
		return source{r: bb, pos: func() int { return len(d) - bb.Len() }}
	case "":
	default:
		panic(engine.HarnessError{Msg: "unknown source wrapper " + kind})
	}
	return source{r: s, pos: func() int { return s.Pos }, stream: s}
}

func (src source) beginCall() {
	if src.stream != nil {
		src.stream.BeginCall()
	}
}
