package scen

import (
	"bytes"
	"encoding/hex"
	"encoding/json"
	"fmt"
	"io"
	"sort"
	"strings"

	proto "github.com/golang/protobuf/proto"
	"github.com/openacid/low/iohelper"
	"github.com/openacid/low/pbcmpl"

	"verifsim/engine"
	"verifsim/simio"
)

// ---------------------------------------------------------------------------
// C07 — scenario "frames-faults" (DESIGN §4.2): truncation, writer failure,
// stored-byte corruption, read errors, crash + recovery, bounded liveness.
//
// A run generates 1–4 frames and applies ONE fault family; inside a family the
// fault positions are ENUMERATED for short streams (every cut, every budget)
// and boundary-biased-sampled above that.
// ---------------------------------------------------------------------------

type FaultsPlan struct {
	Family   string              `json:"family"` // trunc | wfail | corrupt | rderr | crash | giant
	Msgs     []MsgSpec           `json:"msgs"`
	Policies []simio.ChunkPolicy `json:"policies,omitempty"`
	// ErrKind: WHICH error value the failing writer returns ("" = a private
	// sentinel; "shortwrite" = io.ErrShortWrite, "eof" = io.EOF, "closedpipe" =
	// io.ErrClosedPipe): code that special-cases a well-known error value must
	// still stop at the first failure and report that error.
	ErrKind string     `json:"err_kind,omitempty"`
	Wraps   []string   `json:"wraps,omitempty"`  // per policy: what concrete reader type the stream is handed over as (see source.go)
	Seed    uint64     `json:"seed"`             // derives sampled positions / arbitrary bytes
	Points  []int      `json:"points,omitempty"` // explicit fault positions (minimised plans); empty = enumerate/sample
	Off     int64      `json:"off,omitempty"`    // disk offset for the real-stack variants
	Extra   []int      `json:"extra,omitempty"`  // corrupt: numbers of trailing bytes R; crash: see below
	Crash   *CrashPlan `json:"crash,omitempty"`
	Giant   *GiantSpec `json:"giant,omitempty"` // family "giant" (frames_giant.go)
}

type FramesFaults struct{}

func (FramesFaults) Name() string     { return "frames-faults" }
func (FramesFaults) Property() string { return "C07" }

func (FramesFaults) Decode(raw []byte) (engine.Plan, error) {
	var p FaultsPlan
	if err := json.Unmarshal(raw, &p); err != nil {
		return nil, err
	}
	return &p, nil
}

func (FramesFaults) Generate(seed uint64, tier string) engine.Plan {
	r := engine.NewPRNG(seed)
	p := &FaultsPlan{Seed: r.Uint64()}
	p.Family = r.PickStr("trunc", "trunc", "wfail", "wfail", "corrupt", "corrupt", "rderr", "crash", "crash")
	nm := 1 + r.Intn(4)
	if strings.HasSuffix(tier, "/rare1") {
		// placed at one fixed run index per 1024 (engine tier suffix): costly
		return genGiant(r, p)
	}
	if p.Family == "crash" {
		return genCrash(r, p)
	}
	for i := 0; i < nm; i++ {
		m := genMsg(r, 8192)
		// bodies biased small so that sweeps stay cheap and are enumerated
		if !r.Chance(1, 12) {
			m.Len = r.PickInt(0, 0, 1, 1, 31, 32, 33, 200, int(r.Range(0, 64)))
		}
		p.Msgs = append(p.Msgs, m)
	}
	p.ErrKind = r.PickStr(errKinds...)
	p.Policies = []simio.ChunkPolicy{genPolicy(r), genPolicy(r)}
	p.Wraps = []string{wrapKinds[r.Intn(len(wrapKinds))], wrapKinds[r.Intn(len(wrapKinds))]}
	if p.Family != "corrupt" && r.Chance(1, 60) {
		// a frame around/above the 1 MiB incremental-read threshold (fault
		// positions are then sampled, not enumerated)
		p.Msgs[r.Intn(len(p.Msgs))] = genBigMsg(r)
		if len(p.Msgs) > 2 {
			p.Msgs = p.Msgs[:2]
		}
		p.Policies = []simio.ChunkPolicy{genBigPolicy(r), genBigPolicy(r)}
	}
	p.Off = r.PickInt64(0, 7, 4096, 1<<40)
	p.Extra = []int{0, r.PickInt(1, 2, 5), r.PickInt(31, 32, 40, 100)}
	return p
}

// frameInfo is a reference frame: produced by a fault-free Marshal and held to
// the C06 oracle before any fault is applied.
type frameInfo struct {
	spec  MsgSpec
	msg   proto.Message
	frame []byte
}

func buildFrames(inv string, specs []MsgSpec, c *engine.RunCtx, step *int) ([]frameInfo, *engine.Failure) {
	out := make([]frameInfo, len(specs))
	for i, s := range specs {
		msg := s.Build()
		w := simio.NewWriter()
		*step++
		c.Status.SetStep(uint64(*step), 1)
		n, err, pan := callMarshal(w, msg)
		c.Status.SetStep(uint64(*step), 0)
		c.LibCalls++
		c.Ev(0, "marshal.ref", int64(s.Len), n)
		if f := checkFrameWritten(inv+".clean", *step, s, msg, n, err, pan, w.Got); f != nil {
			return nil, f
		}
		out[i] = frameInfo{spec: s, msg: msg, frame: w.Got}
	}
	return out, nil
}

// points returns the fault positions for a byte string of length n: all of
// [0,hi] when short (enumeration), else boundary-biased + hashed samples.
func points(explicit []int, seed uint64, n, hi int, frameStarts []int) (pts []int, enumerated bool) {
	if len(explicit) > 0 {
		for _, k := range explicit {
			if k >= 0 && k <= hi {
				pts = append(pts, k)
			}
		}
		return pts, false
	}
	if n <= 320 {
		for k := 0; k <= hi; k++ {
			pts = append(pts, k)
		}
		return pts, true
	}
	seen := map[int]bool{}
	add := func(k int) {
		if k >= 0 && k <= hi && !seen[k] {
			seen[k] = true
			pts = append(pts, k)
		}
	}
	for _, s := range frameStarts {
		for _, d := range []int{-1, 0, 1, 15, 16, 17, 23, 24, 25, 31, 32, 33, 34, 40} {
			add(s + d)
		}
	}
	// buffer-size boundaries inside a body: an implementation that reads or
	// writes in chunks changes behaviour exactly there
	for _, s := range frameStarts {
		for _, c := range []int{512, 4096, 32 << 10, 64 << 10, 1 << 20} {
			for m := 1; m <= 2; m++ {
				for d := -1; d <= 1; d++ {
					add(s + 32 + m*c + d)
				}
			}
		}
	}
	add(hi)
	add(hi - 1)
	for j := 0; j < 24; j++ {
		add(int(engine.H(seed, uint64(j)) % uint64(hi+1)))
	}
	return pts, false
}

// expectTruncated is the statement's rule for a call that meets the end of the
// stream with a bytes available from its frame start (a strict prefix).
func checkTruncated(inv string, step int, a int64, n int64, err error, what string) *engine.Failure {
	if err == nil {
		return engine.Failf(inv+".success", step, "%s: Unmarshal reported success on a strict prefix (%d bytes available)", what, a)
	}
	if n != a {
		return engine.Failf(inv+".count", step, "%s: Unmarshal returned n=%d, %d bytes were available (err=%v)", what, n, a, err)
	}
	ce := cause(err)
	switch {
	case a == 0:
		if ce != io.EOF {
			return engine.Failf(inv+".eof", step, "%s: nothing was available: error cause must be io.EOF, got %v", what, err)
		}
	case a == 32:
		if ce != io.EOF && ce != io.ErrUnexpectedEOF {
			return engine.Failf(inv+".errclass", step, "%s: cut exactly after the header: cause must be io.ErrUnexpectedEOF (io.EOF tolerated), got %v", what, err)
		}
	default:
		if ce != io.ErrUnexpectedEOF {
			return engine.Failf(inv+".errclass", step, "%s: %d bytes available: error cause must be io.ErrUnexpectedEOF, got %v", what, a, err)
		}
	}
	return nil
}

var layoutValidated bool

// validateLayout confirms THROUGH THE API that the harness's knowledge of the
// header layout is right; if not, the harness assumption is broken (exit 2),
// which is not a property violation.
func validateLayout() {
	if layoutValidated {
		return
	}
	h := craftHeader("9.9.9", 32, 5)
	n, hd, err := pbcmpl.ReadHeader(bytes.NewReader(append(h, 1, 2, 3, 4, 5)))
	if err != nil || n != 32 || hd.GetVersion() != "9.9.9" || hd.GetHeaderSize() != 32 || hd.GetBodySize() != 5 {
		panic(engine.HarnessError{Msg: fmt.Sprintf("harness's header layout (16B version, LE u64 header size, LE u64 body size) is not what ReadHeader reports: n=%d err=%v", n, err)})
	}
	h2 := craftHeader("", 77, 1<<40)
	_, hd2, err2 := pbcmpl.ReadHeader(bytes.NewReader(h2))
	if err2 != nil || hd2.GetHeaderSize() != 77 || hd2.GetBodySize() != 1<<40 {
		panic(engine.HarnessError{Msg: "harness's header layout disagrees with ReadHeader (second probe)"})
	}
	layoutValidated = true
}

// modelUnmarshal is the independent parser: what Unmarshal must do on an
// arbitrary byte string b (the whole remaining stream).
type umodel struct {
	n        int64
	class    string // ok-or-protoerr | eof | ueof | ueof-or-eof | badhs
	complete bool   // a complete frame is present
}

func modelUnmarshal(b []byte) umodel {
	if len(b) == 0 {
		return umodel{0, "eof", false}
	}
	if len(b) < 32 {
		return umodel{int64(len(b)), "ueof", false}
	}
	_, hs, bs, _ := parseHeader(b)
	if hs != 32 {
		return umodel{32, "badhs", false}
	}
	rem := uint64(len(b) - 32)
	if bs >= 1<<63 {
		// No valid frame has a body of 2^63 bytes or more (sizes are int64), so
		// this is not "a strict prefix of a valid frame": only "returns normally,
		// no success" is stated — which error, and whether the rest of the stream
		// is drained first, is open.
		return umodel{-1, "anyerr", false}
	}
	if bs <= rem {
		return umodel{32 + int64(bs), "ok-or-protoerr", true}
	}
	if rem == 0 {
		return umodel{32, "ueof-or-eof", false}
	}
	return umodel{int64(len(b)), "ueof", false}
}

func checkAgainstModel(inv string, step int, m umodel, n int64, err error, consumed int64, what string) *engine.Failure {
	if !m.complete && err == nil {
		return engine.Failf(inv+".success", step, "%s: Unmarshal succeeded although no complete frame was present", what)
	}
	if m.class == "anyerr" {
		if n != consumed || n < 32 {
			return engine.Failf(inv+".count", step, "%s: Unmarshal returned n=%d but consumed %d bytes (a 32-byte header was present)", what, n, consumed)
		}
		return nil
	}
	if n != m.n {
		return engine.Failf(inv+".count", step, "%s: Unmarshal returned n=%d, model says %d (err=%v)", what, n, m.n, err)
	}
	if consumed != m.n {
		return engine.Failf(inv+".consumed", step, "%s: Unmarshal consumed %d bytes of the stream, model says %d", what, consumed, m.n)
	}
	ce := cause(err)
	switch m.class {
	case "eof":
		if ce != io.EOF {
			return engine.Failf(inv+".eof", step, "%s: empty stream: cause must be io.EOF, got %v", what, err)
		}
	case "ueof":
		if ce != io.ErrUnexpectedEOF {
			return engine.Failf(inv+".errclass", step, "%s: cause must be io.ErrUnexpectedEOF, got %v", what, err)
		}
	case "ueof-or-eof":
		if ce != io.ErrUnexpectedEOF && ce != io.EOF {
			return engine.Failf(inv+".errclass", step, "%s: cause must be io.ErrUnexpectedEOF (io.EOF tolerated), got %v", what, err)
		}
	case "badhs":
		if ce != pbcmpl.ErrInvalidHeaderSize {
			return engine.Failf(inv+".headersize", step, "%s: header size field != 32: cause must be ErrInvalidHeaderSize, got %v", what, err)
		}
	}
	return nil
}

func livenessOrPanic(inv string, step int, pan interface{}, what string) *engine.Failure {
	if la, ok := pan.(simio.LivenessAbort); ok {
		return engine.Failf("C07.live", step, "%s: the call kept reading a stream that had already reported its terminal error (%d reads after death)", what, la.Reads)
	}
	return engine.Failf(inv+".panic", step, "%s: panicked: %v", what, pan)
}

func (FramesFaults) Execute(pl engine.Plan, c *engine.RunCtx) *engine.Failure {
	p := pl.(*FaultsPlan)
	c.MaxEvents = 2000000
	st := c.Stats
	step := 0
	st.Inc("family." + p.Family)
	if p.Family == "crash" {
		return execCrash(p, c)
	}
	if p.Family == "giant" {
		return execGiant(p, c)
	}
	frames, f := buildFrames("C07", p.Msgs, c, &step)
	if f != nil {
		return f
	}
	var stream []byte
	var starts []int
	var lens []int64
	for _, fr := range frames {
		starts = append(starts, len(stream))
		stream = append(stream, fr.frame...)
		lens = append(lens, int64(len(fr.frame)))
	}
	wrapOf := func(pi int) string {
		if pi < len(p.Wraps) {
			return p.Wraps[pi]
		}
		return ""
	}
	callSrc := func(src source, msg proto.Message) (int64, string, error, interface{}, int64) {
		step++
		before := src.pos()
		src.beginCall()
		c.Status.SetStep(uint64(step), 1)
		n, ver, err, pan := callUnmarshal(src.r, msg)
		c.Status.SetStep(uint64(step), 0)
		c.LibCalls++
		c.Ev(0, "unmarshal", n, int64(src.pos()-before))
		return n, ver, err, pan, int64(src.pos() - before)
	}
	call := func(s *simio.Stream, msg proto.Message) (int64, string, error, interface{}, int64) {
		return callSrc(newSource("", s, nil), msg)
	}
	fired := func(s *simio.Stream) {
		for k, v := range s.Fired {
			st.Add("fault.fired."+k, int64(v))
			if k == "rd.cut" || k == "rd.err" {
				c.FaultsFired += v
			}
		}
	}

	switch p.Family {
	case "trunc":
		// ---- F1: truncation sweep
		pts, enumerated := points(p.Points, p.Seed, len(stream), len(stream)-1, starts)
		if enumerated {
			st.Inc("probe.C07.trunc_sweep_enumerated")
		}
		reusedDest := map[string]proto.Message{}
		for _, k := range pts {
			for pi, pol := range p.Policies {
				for _, piggy := range []bool{false, true} {
					st.Inc("fault.configured.rd.cut")
					st.Inc("fault_points")
					s := simio.NewStream(stream, pol)
					s.Cut, s.Piggyback = k, piggy
					src := newSource(wrapOf(pi), s, stream)
					if wrapOf(pi) != "" {
						st.Inc("probe.C07.source_is_" + wrapOf(pi))
					}
					what := fmt.Sprintf("cut=%d policy#%d piggyback=%v source=%q", k, pi, piggy, wrapOf(pi))
					total := int64(0)
					done := false
					for i := 0; i < len(frames) && !done; i++ {
						msg := frames[i].spec.Empty()
						if pi == 1 {
							// second policy: ONE destination per kind for the whole sweep — it
							// has usually just been through a FAILED Unmarshal (the previous
							// cut), and must still decode the next complete frame correctly
							if d, ok := reusedDest[frames[i].spec.Kind]; ok {
								msg = d
							} else {
								reusedDest[frames[i].spec.Kind] = msg
							}
						}
						n, ver, err, pan, consumed := callSrc(src, msg)
						if pan != nil {
							return livenessOrPanic("C07.cut", step, pan, what)
						}
						total += n
						if int64(starts[i])+lens[i] <= int64(k) {
							// wholly before the cut: exactly as in C06
							if err != nil || n != lens[i] || consumed != n || !verOK(ver, frames[i].spec.WantVersions()) || !frames[i].spec.SameContent(msg) {
								return engine.Failf("C07.cut.before", step, "%s: frame %d lies wholly before the cut but Unmarshal gave (n=%d, ver=%q, err=%v, consumed=%d), want a clean read of %d bytes", what, i, n, ver, err, consumed, lens[i])
							}
							continue
						}
						a := int64(k - starts[i])
						if f := checkTruncated("C07.cut", step, a, n, err, fmt.Sprintf("%s frame=%d", what, i)); f != nil {
							return f
						}
						if consumed != a {
							return engine.Failf("C07.cut.consumed", step, "%s: consumed %d bytes, %d were available", what, consumed, a)
						}
						switch {
						case a == 0:
							st.Inc("probe.C07.cut_at_frame_boundary")
						case a < 32:
							st.Inc("probe.C07.cut_in_header")
						case a == 32:
							st.Inc("probe.C07.cut_exactly_after_header")
						default:
							st.Inc("probe.C07.cut_in_body")
							if lens[i] > 1<<20+32 {
								st.Inc("probe.C07.cut_in_body_above_1MiB")
							}
						}
						done = true
					}
					if done {
						// the idiomatic loop stops at the first error; a caller that asks
						// once more finds that nothing is available: (0, io.EOF)
						n2, _, err2, pan2, cons2 := callSrc(src, frames[0].spec.Empty())
						if pan2 != nil {
							return livenessOrPanic("C07.cut", step, pan2, what+" (second call after the error)")
						}
						if n2 != 0 || cons2 != 0 || cause(err2) != io.EOF {
							return engine.Failf("C07.cut.again", step, "%s: asked once more after the truncated frame, Unmarshal returned (n=%d, consumed=%d, err=%v); nothing was available, want (0, io.EOF)", what, n2, cons2, err2)
						}
					}
					if total != int64(k) {
						return engine.Failf("C07.cut.total", step, "%s: the counts returned by the read-until-error loop sum to %d, the stream had %d bytes", what, total, k)
					}
					fired(s)
				}
			}
		}
		// ReadHeader over every prefix of the first frame's header
		for k := 0; k <= 32 && k <= len(frames[0].frame); k++ {
			s := simio.NewStream(frames[0].frame, p.Policies[0])
			s.Cut = k
			step++
			s.BeginCall()
			c.Status.SetStep(uint64(step), 1)
			n, h, err, pan := callReadHeader(s)
			c.Status.SetStep(uint64(step), 0)
			c.LibCalls++
			c.Ev(0, "readheader", n, int64(k))
			what := fmt.Sprintf("ReadHeader cut=%d", k)
			if pan != nil {
				return livenessOrPanic("C07.hdr", step, pan, what)
			}
			if k < 32 {
				if err == nil {
					return engine.Failf("C07.hdr.success", step, "%s: reported success on %d bytes", what, k)
				}
				if n != int64(k) {
					return engine.Failf("C07.hdr.count", step, "%s: returned n=%d, %d bytes were available", what, n, k)
				}
				if k == 0 && cause(err) != io.EOF {
					return engine.Failf("C07.hdr.eof", step, "%s: nothing available: cause must be io.EOF, got %v", what, err)
				}
			} else if err != nil || n != 32 || h == nil {
				return engine.Failf("C07.hdr.complete", step, "%s: complete header present but got (n=%d, err=%v)", what, n, err)
			}
			fired(s)
		}

	case "wfail":
		// ---- F2: writer-failure sweep
		werr := errOfKind(p.ErrKind)
		if p.ErrKind != "" {
			st.Inc("probe.C07.writer_fails_with_" + p.ErrKind)
		}
		for fi, fr := range frames {
			L := len(fr.frame)
			pts, enumerated := points(p.Points, p.Seed+uint64(fi), L, L, []int{0})
			if enumerated {
				st.Inc("probe.C07.wfail_sweep_enumerated")
			}
			for _, k := range pts {
				for _, mode := range []string{"partial", "boundary", "eager"} {
					for _, sticky := range []bool{false, true} {
						st.Inc("fault.configured.wr.fail_" + mode)
						st.Inc("fault_points")
						w := simio.NewWriter()
						w.Budget, w.Mode, w.Sticky, w.Err = int64(k), mode, sticky, werr
						step++
						// a quarter of the failure points meet a writer that is SLOW as well
						// (its first non-empty Write takes 2 s .. 1 h of simulated time): the
						// outcome must be the same, and nothing may reach the writer once
						// Marshal has returned
						stall := int64(0)
						if hs := engine.H(p.Seed^0x57a11, uint64(fi), uint64(k)); hs%4 == 0 {
							stall = []int64{2000000000, 60000000000, 3600000000000}[(hs>>8)%3]
							st.Inc("fault.configured.io.stall")
						}
						w.BeginOp(stall)
						c.Status.SetStep(uint64(step), 1)
						n, err, pan := callMarshal(w, fr.msg)
						c.Status.SetStep(uint64(step), 0)
						c.LibCalls++
						late, lateNote, _ := w.EndOp()
						c.Ev(0, "marshal.wfail", int64(k), n, int64(len(w.Got)))
						what := fmt.Sprintf("frame=%d(len %d) budget=%d mode=%s sticky=%v slow=%dns", fi, L, k, mode, sticky, stall)
						if late > 0 {
							return engine.Failf("C07.wfail.late", step, "%s: Marshal had returned (n=%d, err=%v), then %d more Write call(s) reached the writer: %s", what, n, err, late, lateNote)
						}
						if pan != nil {
							return engine.Failf("C07.wfail.panic", step, "%s: Marshal panicked: %v", what, pan)
						}
						for kk, v := range w.Fired {
							st.Add("fault.fired."+kk, int64(v))
						}
						if !w.Failed {
							if err != nil || n != int64(L) || !bytes.Equal(w.Got, fr.frame) {
								return engine.Failf("C07.wfail.nofault", step, "%s: the writer never failed, yet Marshal gave (n=%d, err=%v) and emitted %d bytes (frame is %d)", what, n, err, len(w.Got), L)
							}
							continue
						}
						c.FaultsFired++
						if err == nil {
							return engine.Failf("C07.wfail.swallowed", step, "%s: the writer failed after %d bytes but Marshal returned nil error (n=%d)", what, len(w.Got)-w.AcceptedPost, n)
						}
						if cause(err) != werr && !chainHas(err, werr) {
							return engine.Failf("C07.wfail.error", step, "%s: Marshal must return the writer's error (%v), got %v", what, werr, err)
						}
						if w.AcceptedPost != 0 {
							return engine.Failf("C07.wfail.after", step, "%s: Marshal kept writing after the writer failed: %d more bytes were emitted", what, w.AcceptedPost)
						}
						if n != int64(len(w.Got)) {
							return engine.Failf("C07.wfail.count", step, "%s: Marshal returned n=%d, the writer accepted %d bytes", what, n, len(w.Got))
						}
						if (mode == "partial" || mode == "eager") && n != int64(k) {
							return engine.Failf("C07.wfail.count", step, "%s: Marshal returned n=%d, the writer failed after accepting %d", what, n, k)
						}
						if !bytes.Equal(w.Got, fr.frame[:len(w.Got)]) {
							return engine.Failf("C07.wfail.prefix", step, "%s: emitted bytes are not the first %d bytes of the frame", what, len(w.Got))
						}
						switch {
						case k < 32:
							st.Inc("probe.C07.wfail_in_header")
						case k == 32:
							st.Inc("probe.C07.wfail_between_header_and_body")
						default:
							st.Inc("probe.C07.wfail_in_body")
						}
					}
				}
				// the same failure point through the real stack: a section that ends
				// after k bytes, and a disk that is full after k bytes.
				if k < L || len(fr.frame) > 32 {
					disk := simio.NewDisk()
					h := disk.Handle(0, nil)
					sw := iohelper.NewSectionWriter(h, p.Off, int64(k))
					step++
					st.Inc("fault.configured.section.limit")
					c.Status.SetStep(uint64(step), 1)
					n, err, pan := callMarshal(sw, fr.msg)
					c.Status.SetStep(uint64(step), 0)
					c.LibCalls++
					c.Ev(0, "marshal.section", int64(k), n)
					what := fmt.Sprintf("frame=%d(len %d) into NewSectionWriter(off=%d,n=%d)", fi, L, p.Off, k)
					if pan != nil {
						return engine.Failf("C07.wfail.panic", step, "%s: Marshal panicked: %v", what, pan)
					}
					wantN := int64(k)
					if k >= L {
						wantN = int64(L)
					}
					if n != wantN {
						return engine.Failf("C07.section.count", step, "%s: returned n=%d, want %d (err=%v)", what, n, wantN, err)
					}
					if k < L {
						st.Inc("fault.fired.section.limit")
						c.FaultsFired++
						if cause(err) != io.ErrShortWrite {
							return engine.Failf("C07.section.error", step, "%s: want the section's io.ErrShortWrite, got %v", what, err)
						}
					} else if err != nil {
						return engine.Failf("C07.section.error", step, "%s: the frame fits, got err=%v", what, err)
					}
					if disk.HighWater > p.Off+int64(k) || (wantN > 0 && !bytes.Equal(disk.Bytes(p.Off, int(wantN)), fr.frame[:wantN])) {
						return engine.Failf("C07.section.bytes", step, "%s: the disk does not hold exactly frame[:%d] inside the section", what, wantN)
					}
					for _, rc := range disk.Log {
						if rc.Offered > 0 && (rc.Off < p.Off || rc.Off+int64(rc.Offered) > p.Off+int64(k)) {
							return engine.Failf("C07.section.bytes", step, "%s: bytes offered outside the section at [%d,%d)", what, rc.Off, rc.Off+int64(rc.Offered))
						}
					}
				}
				if k < L {
					disk := simio.NewDisk()
					disk.Capacity = p.Off + int64(k)
					h := disk.Handle(0, nil)
					aw := iohelper.AtToWriter(h, p.Off)
					step++
					st.Inc("fault.configured.disk.full")
					c.Status.SetStep(uint64(step), 1)
					n, err, pan := callMarshal(aw, fr.msg)
					c.Status.SetStep(uint64(step), 0)
					c.LibCalls++
					c.Ev(0, "marshal.diskfull", int64(k), n)
					what := fmt.Sprintf("frame=%d(len %d) into AtToWriter(off=%d) on a disk full after %d bytes", fi, L, p.Off, k)
					if pan != nil {
						return engine.Failf("C07.wfail.panic", step, "%s: Marshal panicked: %v", what, pan)
					}
					st.Add("fault.fired.disk.full", int64(disk.Fired["disk.full"]))
					c.FaultsFired++
					if n != int64(k) || cause(err) != simio.ErrNoSpace {
						return engine.Failf("C07.diskfull", step, "%s: got (n=%d, err=%v), want (%d, disk's no-space error)", what, n, err, k)
					}
					if disk.HighWater > p.Off+int64(k) || (k > 0 && !bytes.Equal(disk.Bytes(p.Off, k), fr.frame[:k])) {
						return engine.Failf("C07.diskfull", step, "%s: the disk does not hold exactly frame[:%d]", what, k)
					}
				}
			}
		}

	case "corrupt":
		// ---- F3: stored-byte corruption
		validateLayout()
		hashed := engine.H(p.Seed, 1)
		// (i) header-size field
		for _, hs := range []uint64{0, 1, 31, 33, 1<<32 + 32, 1 << 63, ^uint64(0), hashed | 64} {
			for _, R := range p.Extra {
				st.Inc("fault.configured.hdr.flip_headersize")
				st.Inc("fault_points")
				b := craftHeader("1.0.0", hs, uint64(R))
				b = append(b, make([]byte, R)...)
				b = append(b, frames[0].frame...)
				s := simio.NewStream(b, p.Policies[0])
				msg := frames[0].spec.Empty()
				n, _, err, pan, consumed := call(s, msg)
				what := fmt.Sprintf("header-size field=%d followed by %d+%d bytes", hs, R, len(frames[0].frame))
				if pan != nil {
					return livenessOrPanic("C07.corrupt", step, pan, what)
				}
				st.Inc("fault.fired.hdr.flip_headersize")
				c.FaultsFired++
				if n != 32 || consumed != 32 || cause(err) != pbcmpl.ErrInvalidHeaderSize {
					return engine.Failf("C07.headersize", step, "%s: got (n=%d, consumed=%d, err=%v), want (32, 32, ErrInvalidHeaderSize)", what, n, consumed, err)
				}
			}
		}
		// (ii) body-size field
		for _, R := range p.Extra {
			bsVals := []uint64{uint64(R) + 1, uint64(R) + 1 + hashed%1000, 1 << 20, 1 << 31, 1 << 32, 1 << 40, 1 << 62, 1<<63 - 1, 1 << 63, ^uint64(0)}
			if R > 0 {
				bsVals = append(bsVals, uint64(R)-1, uint64(R), 0)
			}
			for _, bs := range bsVals {
				st.Inc("fault.configured.hdr.flip_bodysize")
				st.Inc("fault_points")
				b := craftHeader("1.0.0", 32, bs)
				tailb := make([]byte, R)
				engine.Fill(tailb, p.Seed, R)
				b = append(b, tailb...)
				s := simio.NewStream(b, p.Policies[1])
				msg := frames[0].spec.Empty()
				// the corrupt frame is handed over as one of the reader types real
				// callers pass — among them readers that can tell how much is left
				// (bytes.Reader, and the io.SectionReader behind iohelper.AtToReader,
				// which claims about 2^63 bytes): a size field must not be trusted
				// more because the reader looks big
				wk := []string{"", "", "bytesreader", "bytesbuffer", "bufio4096", "atreader", "osfile"}[engine.H(p.Seed^0xc0ffee, uint64(R), bs)%7]
				var src source
				if wk == "atreader" {
					off := int64(engine.H(p.Seed, uint64(R))%3) * 4096
					dk := simio.NewDisk()
					hd := dk.Handle(0, nil)
					if _, werr := hd.WriteAt(b, off); werr != nil {
						panic(engine.HarnessError{Msg: "storing a corrupt frame: " + werr.Error()})
					}
					ar := iohelper.AtToReader(hd, off)
					src = source{r: ar, pos: func() int {
						if sk, ok := ar.(io.Seeker); ok {
							q, _ := sk.Seek(0, io.SeekCurrent)
							return int(q)
						}
						return 0
					}}
				} else {
					src = newSource(wk, s, b)
				}
				if wk != "" {
					st.Inc("probe.C07.corrupt_size_field_read_through_" + wk)
				}
				what := fmt.Sprintf("body-size field=%d with %d bytes following the header (reader: %q)", bs, R, wk)
				c.Status.SetNote("Unmarshal on " + what)
				n, _, err, pan, consumed := callSrc(src, msg)
				if pan != nil {
					if _, ok := pan.(simio.LivenessAbort); ok {
						return livenessOrPanic("C07.corrupt", step, pan, what)
					}
					return engine.Failf("C07.normal_return", step, "%s: Unmarshal panicked: %v", what, pan)
				}
				st.Inc("fault.fired.hdr.flip_bodysize")
				c.FaultsFired++
				if bs > uint64(R) {
					st.Inc("probe.C07.declared_body_gt_available")
					if bs >= 1<<63 {
						st.Inc("probe.C07.declared_body_ge_2^63")
					}
				}
				if f := checkAgainstModel("C07.bodysize", step, modelUnmarshal(b), n, err, consumed, what); f != nil {
					return f
				}
			}
		}
		// (iii) arbitrary bytes: random strings and mutated valid frames
		for j := 0; j < 48; j++ {
			hj := engine.H(p.Seed, 77, uint64(j))
			var b []byte
			if j%2 == 0 {
				b = make([]byte, hj%97)
				engine.Fill(b, p.Seed, 1000+j)
			} else {
				src := frames[int(hj>>8)%len(frames)].frame
				b = append([]byte(nil), src...)
				nm := 1 + int(hj>>16)%3
				for q := 0; q < nm && len(b) > 0; q++ {
					hq := engine.H(hj, uint64(q))
					pos := int(hq % uint64(len(b)))
					if hq>>20&1 == 0 && len(b) >= 32 {
						pos = 16 + int(hq>>24)%16 // bias to the two size fields
					}
					b[pos] ^= byte(1 << ((hq >> 40) % 8))
				}
				if hj>>30&3 == 0 {
					b = b[:int(hj>>32)%(len(b)+1)]
				}
			}
			st.Inc("fault.configured.bytes.arbitrary")
			st.Inc("fault_points")
			s := simio.NewStream(b, p.Policies[j%2])
			msg := frames[0].spec.Empty()
			what := "arbitrary bytes " + hex.EncodeToString(b)
			if len(what) > 240 {
				what = what[:240] + "…"
			}
			c.Status.SetNote("Unmarshal on " + what)
			n, _, err, pan, consumed := call(s, msg)
			if pan != nil {
				if _, ok := pan.(simio.LivenessAbort); ok {
					return livenessOrPanic("C07.corrupt", step, pan, what)
				}
				return engine.Failf("C07.normal_return", step, "%s: Unmarshal panicked: %v", what, pan)
			}
			st.Inc("fault.fired.bytes.arbitrary")
			c.FaultsFired++
			if f := checkAgainstModel("C07.arbitrary", step, modelUnmarshal(b), n, err, consumed, what); f != nil {
				return f
			}
			// ReadHeader on the same bytes: returns normally, succeeds only with >= 32 bytes
			s2 := simio.NewStream(b, p.Policies[(j+1)%2])
			step++
			s2.BeginCall()
			c.Status.SetStep(uint64(step), 1)
			hn, _, herr, hpan := callReadHeader(s2)
			c.Status.SetStep(uint64(step), 0)
			c.LibCalls++
			c.Ev(0, "readheader.arb", hn)
			if hpan != nil {
				return engine.Failf("C07.normal_return", step, "%s: ReadHeader panicked: %v", what, hpan)
			}
			if herr == nil && len(b) < 32 {
				return engine.Failf("C07.hdr.success", step, "%s: ReadHeader succeeded on %d bytes", what, len(b))
			}
			if herr != nil && len(b) >= 32 {
				return engine.Failf("C07.hdr.complete", step, "%s: ReadHeader failed (%v) although 32 bytes were present", what, herr)
			}
		}
		// (iv) body bytes flipped: returns normally, count = frame length
		for fi, fr := range frames {
			if len(fr.frame) <= 32 {
				continue
			}
			b := append([]byte(nil), fr.frame...)
			pos := 32 + int(engine.H(p.Seed, 99, uint64(fi))%uint64(len(b)-32))
			b[pos] ^= 0xff
			st.Inc("fault.configured.body.flip")
			st.Inc("fault_points")
			s := simio.NewStream(b, p.Policies[0])
			msg := fr.spec.Empty()
			what := fmt.Sprintf("frame %d with body byte %d flipped", fi, pos-32)
			n, _, _, pan, consumed := call(s, msg)
			if pan != nil {
				return engine.Failf("C07.normal_return", step, "%s: Unmarshal panicked: %v", what, pan)
			}
			st.Inc("fault.fired.body.flip")
			c.FaultsFired++
			if n != int64(len(b)) || consumed != n {
				return engine.Failf("C07.bodyflip.count", step, "%s: got n=%d consumed=%d, frame length %d", what, n, consumed, len(b))
			}
		}

	case "rderr":
		// ---- F4: injected read error at byte k
		pts, _ := points(p.Points, p.Seed, len(stream), len(stream), starts)
		for _, k := range pts {
			for pi, pol := range p.Policies {
				for _, piggy := range []bool{false, true} {
					st.Inc("fault.configured.rd.err")
					st.Inc("fault_points")
					s := simio.NewStream(stream, pol)
					s.ErrAt, s.Err, s.Piggyback = k, simio.ErrInjected, piggy
					wk := wrapOf(pi)
					if wk == "bytesreader" || wk == "bytesbuffer" {
						wk = "bufio64" // those two cannot carry an injected error
					}
					src := newSource(wk, s, stream)
					what := fmt.Sprintf("read error at byte %d policy#%d piggyback=%v source=%q", k, pi, piggy, wk)
					for i := 0; i < len(frames); i++ {
						msg := frames[i].spec.Empty()
						n, ver, err, pan, consumed := callSrc(src, msg)
						if pan != nil {
							return livenessOrPanic("C07.rderr", step, pan, what)
						}
						if int64(starts[i])+lens[i] <= int64(k) {
							if piggy && int64(starts[i])+lens[i] == int64(k) && err != nil && cause(err) == simio.ErrInjected && n == lens[i] {
								// held back: the error arrived in the same Read as the frame's
								// last bytes; whether a complete frame then still counts as
								// success is not stated
								st.Inc("probe.C07.rderr_piggybacked_on_last_byte_reported")
								break
							}
							if err != nil || n != lens[i] || consumed != n || !verOK(ver, frames[i].spec.WantVersions()) || !frames[i].spec.SameContent(msg) {
								return engine.Failf("C07.rderr.before", step, "%s: frame %d was delivered completely before the error but Unmarshal gave (n=%d, err=%v, consumed=%d)", what, i, n, err, consumed)
							}
							continue
						}
						if err == nil {
							return engine.Failf("C07.rderr.success", step, "%s: frame %d was NOT delivered completely, yet Unmarshal reported success (n=%d)", what, i, n)
						}
						if cause(err) == io.EOF {
							// io.EOF is the statement's signal for "nothing was available,
							// the stream ended cleanly"; the stream did NOT end here, the
							// reader failed: a read-until-EOF loop would stop silently
							return engine.Failf("C07.rderr.eof_invented", step, "%s: the reader failed with an I/O error (it never reported EOF) but Unmarshal reports cause io.EOF (n=%d): a read-until-EOF loop would end cleanly and drop the remaining frames", what, n)
						}
						break
					}
					fired(s)
				}
			}
		}
	default:
		panic(engine.HarnessError{Msg: "unknown fault family " + p.Family})
	}
	st.State(engine.HashU64(0, uint64(len(stream)), uint64(step)))
	return nil
}

func (FramesFaults) Shrink(pl engine.Plan) []engine.Plan {
	p := pl.(*FaultsPlan)
	var out []engine.Plan
	clone := func() *FaultsPlan {
		b, _ := json.Marshal(p)
		var q FaultsPlan
		_ = json.Unmarshal(b, &q)
		return &q
	}
	if p.Family == "crash" {
		return shrinkCrash(p)
	}
	if p.Family == "giant" {
		if p.ErrKind != "" {
			q := clone()
			q.ErrKind = ""
			out = append(out, q)
		}
		return out
	}
	if len(p.Msgs) > 1 {
		for i := range p.Msgs {
			q := clone()
			q.Msgs = append(q.Msgs[:i], q.Msgs[i+1:]...)
			q.Points = nil
			out = append(out, q)
		}
	}
	for i, m := range p.Msgs {
		if m.Len > 0 {
			for _, nl := range []int{0, 1, m.Len / 2, 1<<20 + 1} {
				if nl < m.Len {
					q := clone()
					q.Msgs[i].Len = nl
					q.Points = nil
					out = append(out, q)
				}
			}
		}
		if m.Versioned {
			q := clone()
			q.Msgs[i].Versioned, q.Msgs[i].VerHex = false, ""
			out = append(out, q)
		}
		if m.Kind != "bytes" {
			q := clone()
			q.Msgs[i].Kind = "bytes"
			out = append(out, q)
		}
	}
	// narrow the sweep: materialise the point list, then halve it / single points
	if p.Family == "trunc" || p.Family == "wfail" || p.Family == "rderr" {
		pts := p.Points
		if len(pts) == 0 {
			// materialise the SAME point list the execution uses (all positions
			// for short streams, the boundary-biased sample for long ones): never
			// more than a few hundred candidates' worth of sweep
			total := 0
			var starts []int
			for _, m := range p.Msgs {
				starts = append(starts, total)
				total += 32 + len(m.Body())
			}
			hi := total
			if p.Family == "trunc" {
				hi = total - 1
			}
			if p.Family == "wfail" && len(p.Msgs) > 0 {
				hi = 32 + len(p.Msgs[0].Body())
				pts, _ = points(nil, p.Seed, hi, hi, []int{0})
			} else {
				pts, _ = points(nil, p.Seed, total, hi, starts)
			}
			sort.Ints(pts)
		}
		if len(pts) > 1 {
			q := clone()
			q.Points = append([]int(nil), pts[:len(pts)/2]...)
			out = append(out, q)
			q = clone()
			q.Points = append([]int(nil), pts[len(pts)/2:]...)
			out = append(out, q)
		}
	}
	if p.ErrKind != "" {
		q := clone()
		q.ErrKind = ""
		out = append(out, q)
	}
	for i, wk := range p.Wraps {
		if wk != "" {
			q := clone()
			q.Wraps[i] = ""
			out = append(out, q)
		}
	}
	for i, pol := range p.Policies {
		if pol.Kind != "whole" {
			q := clone()
			q.Policies[i] = simio.ChunkPolicy{Kind: "whole"}
			out = append(out, q)
		}
	}
	if p.Off != 0 {
		q := clone()
		q.Off = 0
		out = append(out, q)
	}
	if len(p.Extra) > 1 {
		for i := range p.Extra {
			q := clone()
			q.Extra = append(q.Extra[:i], q.Extra[i+1:]...)
			out = append(out, q)
		}
	}
	return out
}
