package scen

import (
	"bytes"
	"encoding/binary"
	"encoding/hex"
	"fmt"

	proto "github.com/golang/protobuf/proto"
	"google.golang.org/protobuf/types/known/structpb"
	"google.golang.org/protobuf/types/known/wrapperspb"

	"verifsim/engine"
)

// MsgSpec describes one message of a plan. Content is attributable:
// byte j = engine.Content(Seed, 0, j).
type MsgSpec struct {
	Kind      string `json:"kind"` // bytes | string | legacy | list (a real protobuf message with NESTED messages)
	Len       int    `json:"len"`
	Seed      uint64 `json:"seed"`
	Versioned bool   `json:"versioned,omitempty"`
	// Unknown: the (real protobuf) message also carries fields its type does
	// not know — what a reader built from an older schema sees. They are part
	// of the message: they must survive the round trip.
	Unknown bool `json:"unknown,omitempty"`
	// Pattern: payload content. "" = attributable pseudo-random bytes; "zero",
	// "ff", "80" = that byte repeated; "alt" = 0xaa 0x55 …; "hdr" = the payload
	// starts with bytes that look exactly like a frame header (version, header
	// size 32, a small body size) — content must never be interpreted.
	Pattern string `json:"pattern,omitempty"`
	VerHex  string `json:"ver_hex,omitempty"` // version bytes, hex (may contain NUL, 0x80, 0xff)
	// Entries > 1 (kind list, C06 only): the nested Struct holds this many map
	// entries. The wire ORDER of map entries is not fixed, so two encodings of
	// such a message may differ byte-wise while being the same message; C06
	// compares lengths and decoded contents, never two encodings (C07, which
	// compares emitted bytes with a reference frame, keeps single-entry maps).
	Entries int `json:"entries,omitempty"`
	// RefusedBefore (C06 writers only): right before this message is written the
	// same task makes ONE Marshal call the library refuses, on a throwaway
	// writer, and recovers: "longver" = a version of more than 16 bytes (the
	// documented panic), "marshalerr" = a legacy message whose own Marshal
	// returns an error, "marshalpanic" = one whose Marshal panics. What the
	// refused call returns is not examined; the frames that FOLLOW must be what
	// they would have been without it.
	RefusedBefore string `json:"refused_before,omitempty"`
}

// refusedMsg is a legacy message whose own Marshal fails (mode "err"), panics
// (mode "panic") or works (mode ""), with a version of any length.
type refusedMsg struct {
	legacyMsg
	mode string
	ver  string
}

var errRefusedMarshal = fmt.Errorf("harness: this message refuses to be encoded")

func (r *refusedMsg) Marshal() ([]byte, error) {
	switch r.mode {
	case "err":
		return nil, errRefusedMarshal
	case "panic":
		panic("harness: this message panics when encoded")
	}
	return append([]byte(nil), r.Body...), nil
}
func (r *refusedMsg) GetVersion() string { return r.ver }

// Refused builds the message of the refused call that precedes m.
func (m MsgSpec) Refused() proto.Message {
	body := m.payload()
	if len(body) > 300 {
		body = body[:300]
	}
	if len(body) == 0 {
		body = []byte("refused")
	}
	switch m.RefusedBefore {
	case "longver":
		return &refusedMsg{legacyMsg: legacyMsg{Body: body}, ver: "1.10.100-overlong-version"[:17+int(m.Seed%9)]}
	case "marshalerr":
		return &refusedMsg{legacyMsg: legacyMsg{Body: body}, mode: "err", ver: "9.9.9"}
	case "marshalpanic":
		return &refusedMsg{legacyMsg: legacyMsg{Body: body}, mode: "panic", ver: "9.9.9"}
	}
	return nil
}

func (m MsgSpec) Version() string {
	b, err := hex.DecodeString(m.VerHex)
	if err != nil {
		panic(engine.HarnessError{Msg: "bad ver_hex in plan"})
	}
	return string(b)
}

// legacyMsg is a "legacy" protobuf message: hand-written Marshal/Unmarshal, no
// struct tags — the same shape as pbcmpl's own header type.
type legacyMsg struct {
	Body []byte
}

func (l *legacyMsg) Marshal() ([]byte, error) { return append([]byte(nil), l.Body...), nil }
func (l *legacyMsg) Unmarshal(b []byte) error { l.Body = append([]byte(nil), b...); return nil }
func (l *legacyMsg) Reset()                   { *l = legacyMsg{} }
func (l *legacyMsg) String() string           { return fmt.Sprintf("legacy(%d)", len(l.Body)) }
func (l *legacyMsg) ProtoMessage()            {}

type verBytes struct {
	*wrapperspb.BytesValue
	ver string
}

func (v *verBytes) GetVersion() string { return v.ver }

type verString struct {
	*wrapperspb.StringValue
	ver string
}

func (v *verString) GetVersion() string { return v.ver }

type verLegacy struct {
	*legacyMsg
	ver string
}

func (v *verLegacy) GetVersion() string { return v.ver }

type verList struct {
	*structpb.ListValue
	ver string
}

func (v *verList) GetVersion() string { return v.ver }

// legacySized is a legacy message that ALSO has a method named Size with a
// meaning of its own (here: its length in bits) — a name, not a protobuf
// interface: Size(msg) of the framer is defined by the encoding, not by it.
type legacySized struct {
	legacyMsg
}

func (l *legacySized) Size() int { return 8*len(l.Body) + 3 }

// sized reports whether the (legacy, unversioned) message is built as a
// legacySized; derived from the spec's seed so that old plans stay valid.
func (m MsgSpec) sized() bool {
	return m.Kind == "legacy" && !m.Versioned && engine.H(m.Seed, 52)%4 == 0
}

// SizeMode says when the harness asks Size(msg) relative to Marshal: "before"
// (then the sizes a real protobuf message caches are fresh), "after" (Marshal
// meets a message that was never sized), or "stale" (Size is asked, THEN nested
// fields are changed, then Marshal: cached sizes of nested messages are out of
// date — legitimate use: a message is sized for a buffer, completed, written).
func (m MsgSpec) SizeMode() string {
	switch engine.H(m.Seed, 51) % 4 {
	case 2:
		return "after"
	case 3:
		return "stale"
	}
	return "before"
}

// buildList builds a ListValue with nested messages from the payload: plain
// strings, a Struct holding a string, a nested list.
func (m MsgSpec) buildList() *structpb.ListValue {
	p := m.payload()
	k := 1 + int(engine.H(m.Seed, 61)%4)
	l := &structpb.ListValue{}
	str := func(s string) *structpb.Value {
		return &structpb.Value{Kind: &structpb.Value_StringValue{StringValue: s}}
	}
	for i := 0; i < k; i++ {
		chunk := string(p[len(p)*i/k : len(p)*(i+1)/k])
		switch i % 3 {
		case 0:
			l.Values = append(l.Values, str(chunk))
		case 1:
			// (one entry only: the wire order of a map's entries is not fixed, and
			// two encodings of one message must be the same bytes)
			fields := map[string]*structpb.Value{"k": str(chunk)}
			for e := 1; e < m.Entries; e++ {
				fields[fmt.Sprintf("k%d", e)] = str(fmt.Sprintf("v%d", e*e))
			}
			l.Values = append(l.Values, &structpb.Value{Kind: &structpb.Value_StructValue{StructValue: &structpb.Struct{Fields: fields}}})
		default:
			l.Values = append(l.Values, &structpb.Value{Kind: &structpb.Value_ListValue{ListValue: &structpb.ListValue{Values: []*structpb.Value{
				str(chunk), {Kind: &structpb.Value_BoolValue{BoolValue: true}}, {Kind: &structpb.Value_NumberValue{NumberValue: float64(len(chunk))}},
			}}}})
		}
	}
	if u := m.unknownBytes(); u != nil {
		l.ProtoReflect().SetUnknown(u)
	}
	return l
}

// stringValues lists every Value of the tree that holds a string.
func stringValues(l *structpb.ListValue, out []*structpb.Value) []*structpb.Value {
	for _, v := range l.Values {
		switch k := v.Kind.(type) {
		case *structpb.Value_StringValue:
			out = append(out, v)
		case *structpb.Value_StructValue:
			if f := k.StructValue.Fields["k"]; f != nil {
				if _, ok := f.Kind.(*structpb.Value_StringValue); ok {
					out = append(out, f)
				}
			}
		case *structpb.Value_ListValue:
			out = stringValues(k.ListValue, out)
		}
	}
	return out
}

// Unfinished puts the nested strings of a built "list" message into an earlier,
// LONGER state and returns the function that completes the message again; for
// other kinds it returns nil (nothing nested to complete).
func (m MsgSpec) Unfinished(msg proto.Message) (finish func()) {
	var l *structpb.ListValue
	switch x := msg.(type) {
	case *structpb.ListValue:
		l = x
	case *verList:
		l = x.ListValue
	default:
		return nil
	}
	vals := stringValues(l, nil)
	final := make([]string, len(vals))
	for i, v := range vals {
		final[i] = v.Kind.(*structpb.Value_StringValue).StringValue
		v.Kind = &structpb.Value_StringValue{StringValue: final[i] + "-not-yet-final-"}
	}
	return func() {
		for i, v := range vals {
			v.Kind = &structpb.Value_StringValue{StringValue: final[i]}
		}
	}
}

// unknownBytes is a valid encoding of two fields no wrapper type has: field 15
// (varint) and field 16 (length-delimited).
func (m MsgSpec) unknownBytes() []byte {
	if !m.Unknown || m.Kind == "legacy" {
		return nil
	}
	v := byte(engine.H(m.Seed, 41) % 100)
	return []byte{0x78, v, 0x82, 0x01, 0x03, 'u', 'n', v}
}

func (m MsgSpec) payload() []byte {
	p := make([]byte, m.Len)
	engine.Fill(p, m.Seed, 0)
	switch m.Pattern {
	case "zero":
		for i := range p {
			p[i] = 0
		}
	case "ff":
		for i := range p {
			p[i] = 0xff
		}
	case "80":
		for i := range p {
			p[i] = 0x80
		}
	case "alt":
		for i := range p {
			p[i] = 0xaa >> uint(i&1)
		}
	case "hdr":
		copy(p, craftHeader("1.0.0", 32, uint64(m.Seed%7)))
	}
	if m.Kind == "string" || m.Kind == "list" {
		for i := range p {
			p[i] = 'a' + p[i]%26
		}
	}
	return p
}

// bodyBound is an upper bound of the encoded body length, for laying out
// sections before anything is encoded.
func (m MsgSpec) bodyBound() int {
	if m.Kind == "list" {
		return m.Len + 160 + 2*20*m.Entries
	}
	return m.Len + 16
}

// Build returns the message to marshal.
func (m MsgSpec) Build() proto.Message {
	p := m.payload()
	switch m.Kind {
	case "bytes":
		b := &wrapperspb.BytesValue{Value: p}
		if u := m.unknownBytes(); u != nil {
			b.ProtoReflect().SetUnknown(u)
		}
		if m.Versioned {
			return &verBytes{b, m.Version()}
		}
		return b
	case "string":
		s := &wrapperspb.StringValue{Value: string(p)}
		if u := m.unknownBytes(); u != nil {
			s.ProtoReflect().SetUnknown(u)
		}
		if m.Versioned {
			return &verString{s, m.Version()}
		}
		return s
	case "legacy":
		l := &legacyMsg{Body: p}
		if m.Versioned {
			return &verLegacy{l, m.Version()}
		}
		if m.sized() {
			return &legacySized{legacyMsg{Body: p}}
		}
		return l
	case "list":
		l := m.buildList()
		if m.Versioned {
			return &verList{l, m.Version()}
		}
		return l
	}
	panic(engine.HarnessError{Msg: "unknown message kind " + m.Kind})
}

// Empty returns a fresh message of the same kind to unmarshal into.
func (m MsgSpec) Empty() proto.Message {
	switch m.Kind {
	case "bytes":
		return &wrapperspb.BytesValue{}
	case "string":
		return &wrapperspb.StringValue{}
	case "legacy":
		return &legacyMsg{}
	case "list":
		return &structpb.ListValue{}
	}
	panic(engine.HarnessError{Msg: "unknown message kind " + m.Kind})
}

// SameContent reports whether got (filled by Unmarshal) carries the spec's payload.
func (m MsgSpec) SameContent(got proto.Message) bool {
	p := m.payload()
	switch g := got.(type) {
	case *wrapperspb.BytesValue:
		return bytes.Equal(g.Value, p) && bytes.Equal(g.ProtoReflect().GetUnknown(), m.unknownBytes())
	case *wrapperspb.StringValue:
		return g.Value == string(p) && bytes.Equal(g.ProtoReflect().GetUnknown(), m.unknownBytes())
	case *legacyMsg:
		return bytes.Equal(g.Body, p)
	case *structpb.ListValue:
		return m.Kind == "list" && proto.Equal(g, m.buildList())
	}
	return false
}

// Body is the harness's own encoding of the message (real protobuf library).
func (m MsgSpec) Body() []byte {
	b, err := proto.Marshal(m.Build())
	if err != nil {
		panic(engine.HarnessError{Msg: "proto.Marshal of a plan message failed: " + err.Error()})
	}
	return b
}

// WantVersions lists the versions a reader may report for this message.
func (m MsgSpec) WantVersions() []string {
	if !m.Versioned {
		return []string{"1.0.0"} // DefaultVer, stated in the API docs
	}
	v := m.Version()
	if v == "" {
		return []string{"", "1.0.0"} // "carries none" is ambiguous for an empty version: held back
	}
	return []string{v}
}

func verOK(got string, want []string) bool {
	for _, w := range want {
		if got == w {
			return true
		}
	}
	return false
}

// bigLens straddle the 1 MiB threshold above which pbcmpl.Unmarshal reads the
// body incrementally (a tuning constant of the library: correctness must not
// depend on which side of it a frame falls). The encoded body of a BytesValue
// is the payload plus 4 bytes here, a legacy message is the payload itself.
var bigLens = []int{1<<20 - 40, 1<<20 - 4, 1<<20 - 3, 1 << 20, 1<<20 + 1, 1<<20 + 1000, 1<<20 + 70000, 2<<20 + 5}

// genBigMsg draws a message whose body is around or above 1 MiB, or — half of
// the time — whose ENCODED BODY is an exact multiple (+-1) of a size a reader
// or writer might move data in: k MiB for k = 2..4, or m * 2^j for j = 15..19
// (32 KiB .. 512 KiB pieces).
func genBigMsg(r *engine.PRNG) MsgSpec {
	m := genMsg(r, 100)
	m.Len = bigLens[r.Intn(len(bigLens))]
	if r.Chance(1, 2) {
		var body int
		if r.Chance(1, 2) {
			body = r.PickInt(2, 2, 3, 4) << 20
		} else {
			body = (1 + r.Intn(7)) << uint(15+r.Intn(5))
		}
		body += r.PickInt(-1, 0, 0, 0, 1)
		m.Len = payloadForBody(m, body)
	}
	return m
}

func varintLen(v int) int {
	n := 1
	for v >= 0x80 {
		v >>= 7
		n++
	}
	return n
}

// payloadForBody returns the payload length for which the message's encoded
// body is exactly body bytes long (a legacy message's body is its payload; a
// wrapper adds a tag, a length and possibly the unknown fields).
func payloadForBody(m MsgSpec, body int) int {
	if m.Kind == "legacy" {
		return body
	}
	extra := len(m.unknownBytes())
	for l := body - extra - 2; l >= 1 && l >= body-extra-8; l-- {
		if 1+varintLen(l)+l+extra == body {
			return l
		}
	}
	return body
}

// genMsg draws one message spec.
func genMsg(r *engine.PRNG, maxLen int) MsgSpec {
	m := MsgSpec{Seed: r.Uint64()}
	m.Kind = r.PickStr("bytes", "bytes", "string", "legacy", "legacy", "list")
	lens := []int{0, 0, 1, 2, 31, 32, 33, 127, 128, 129, 200, 255, 256, 257, 511, 512, 513, 1023, 1024, 1025, 4095, 4096, 4097, 65535, 65536, 65537}
	m.Len = lens[r.Intn(len(lens))]
	if r.Chance(1, 4) {
		m.Len = int(r.Range(0, 8192))
	}
	if m.Len > maxLen {
		m.Len = int(r.Range(0, int64(maxLen)))
	}
	m.Unknown = r.Chance(1, 6)
	if r.Chance(1, 4) {
		m.Pattern = r.PickStr("zero", "ff", "80", "alt", "hdr", "hdr")
	}
	if r.Chance(1, 2) {
		m.Versioned = true
		n := r.PickInt(0, 1, 5, 5, 15, 16, 16, int(r.Range(0, 16)))
		alphabet := []byte{0, '.', '0', '1', '9', 0x80, 0xff}
		v := make([]byte, n)
		for i := range v {
			v[i] = alphabet[r.Intn(len(alphabet))]
		}
		if n > 0 && v[n-1] == 0 {
			v[n-1] = '7' // last byte != NUL (statement's domain)
		}
		m.VerHex = hex.EncodeToString(v)
	}
	return m
}

// genRefused decides whether a refused call precedes a message (C06 writers).
func genRefused(r *engine.PRNG) string {
	if r.Chance(1, 10) {
		return r.PickStr("longver", "longver", "marshalerr", "marshalpanic")
	}
	return ""
}

// parseHeader is the harness's INDEPENDENT reading of the 32-byte header
// layout (16 bytes version, 8 bytes little-endian header size, 8 bytes
// little-endian body size). Its agreement with the library is validated through
// the API before it is relied upon (layoutValidated).
func parseHeader(b []byte) (ver string, hs, bs uint64, ok bool) {
	if len(b) < 32 {
		return "", 0, 0, false
	}
	v := b[:16]
	i := len(v)
	for i > 0 && v[i-1] == 0 {
		i--
	}
	return string(v[:i]), binary.LittleEndian.Uint64(b[16:24]), binary.LittleEndian.Uint64(b[24:32]), true
}

func craftHeader(ver string, hs, bs uint64) []byte {
	b := make([]byte, 32)
	copy(b[:16], ver)
	binary.LittleEndian.PutUint64(b[16:24], hs)
	binary.LittleEndian.PutUint64(b[24:32], bs)
	return b
}
