package scen

import "testing"

func TestPayloadForBody(t *testing.T) {
	for _, kind := range []string{"bytes", "string", "legacy"} {
		for _, unk := range []bool{false, true} {
			for _, body := range []int{2 << 20, 3<<20 + 1, 1<<15 - 1, 7 << 19, 96 << 10} {
				m := MsgSpec{Kind: kind, Unknown: unk, Seed: 5}
				m.Len = payloadForBody(m, body)
				if got := len(m.Body()); got != body {
					t.Errorf("%s unknown=%v: body %d, want %d", kind, unk, got, body)
				}
			}
		}
	}
}

func TestBodyBound(t *testing.T) {
	for seed := uint64(0); seed < 3000; seed++ {
		for _, kind := range []string{"bytes", "string", "legacy", "list"} {
			for _, l := range []int{0, 1, 2, 3, 4, 5, 31, 200, 70000} {
				m := MsgSpec{Kind: kind, Unknown: seed%2 == 0, Seed: seed, Len: l}
				if kind == "list" && seed%3 == 0 {
					m.Entries = 40
				}
				if got := len(m.Body()); got > m.bodyBound() {
					t.Fatalf("%s len %d seed %d: body %d > bound %d", kind, l, seed, got, m.bodyBound())
				}
			}
		}
	}
}
