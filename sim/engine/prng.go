// Package engine is the deterministic-simulation core: a private PRNG that is
// used ONLY to generate explicit plans, a cooperative scheduler that runs
// exactly one task at a time, an event log with a fingerprint, reach counters,
// and a generic plan minimiser.
//
// Determinism rules (DESIGN §3.7): nothing in this package iterates a map in a
// decision or logging path, reads a clock, uses math/rand, or logs an address.
package engine

// PRNG is splitmix64. It is private to the harness so that the stream does not
// depend on the Go release.
type PRNG struct{ s uint64 }

func NewPRNG(seed uint64) *PRNG { return &PRNG{s: seed} }

func (p *PRNG) Uint64() uint64 {
	p.s += 0x9e3779b97f4a7c15
	z := p.s
	z = (z ^ (z >> 30)) * 0xbf58476d1ce4e5b9
	z = (z ^ (z >> 27)) * 0x94d049bb133111eb
	return z ^ (z >> 31)
}

// Intn returns a value in [0,n). n must be > 0.
func (p *PRNG) Intn(n int) int {
	if n <= 0 {
		panic("engine.PRNG.Intn: n <= 0")
	}
	return int(p.Uint64() % uint64(n))
}

func (p *PRNG) Int63n(n int64) int64 {
	if n <= 0 {
		panic("engine.PRNG.Int63n: n <= 0")
	}
	return int64(p.Uint64() % uint64(n))
}

// Range returns a value in [lo,hi] inclusive.
func (p *PRNG) Range(lo, hi int64) int64 {
	if hi < lo {
		lo, hi = hi, lo
	}
	return lo + p.Int63n(hi-lo+1)
}

// Chance is true with probability num/den.
func (p *PRNG) Chance(num, den int) bool { return p.Intn(den) < num }

func (p *PRNG) PickInt(xs ...int) int          { return xs[p.Intn(len(xs))] }
func (p *PRNG) PickInt64(xs ...int64) int64    { return xs[p.Intn(len(xs))] }
func (p *PRNG) PickUint64(xs ...uint64) uint64 { return xs[p.Intn(len(xs))] }
func (p *PRNG) PickStr(xs ...string) string    { return xs[p.Intn(len(xs))] }

// Fork derives an independent stream.
func (p *PRNG) Fork() *PRNG { return NewPRNG(p.Uint64() ^ 0xa5a5a5a5deadbeef) }

// H is a stateless hash of a seed and some integers; plans store the seed and
// execution derives "dynamic" quantities (the j-th Read's chunk size, whether
// to switch at yield number y) from it without ever drawing from a PRNG.
func H(seed uint64, xs ...uint64) uint64 {
	h := seed ^ 0x2545f4914f6cdd1d
	for _, x := range xs {
		h ^= x + 0x9e3779b97f4a7c15 + (h << 6) + (h >> 2)
		h = (h ^ (h >> 30)) * 0xbf58476d1ce4e5b9
		h = (h ^ (h >> 27)) * 0x94d049bb133111eb
		h ^= h >> 31
	}
	return h
}

// Content is the attributable payload byte j of logical object (seed,i).
func Content(seed uint64, i, j int) byte {
	return byte(H(seed, uint64(i), uint64(j>>3)) >> (8 * uint(j&7)))
}

// Fill fills p with attributable content (same bytes as Content).
func Fill(p []byte, seed uint64, i int) {
	var w uint64
	for j := range p {
		if j&7 == 0 {
			w = H(seed, uint64(i), uint64(j>>3))
		}
		p[j] = byte(w >> (8 * uint(j&7)))
	}
}
