package engine

import (
	"encoding/json"
	"runtime"
	"time"
)

// Plan is an explicit, JSON-serialisable description of one execution: the
// operations with concrete arguments, the faults, the schedule, the knobs.
// Execution is a pure function of (plan, code under test).
type Plan interface{}

// Scenario is one simulated world (DESIGN §3/§4).
type Scenario interface {
	Name() string     // e.g. "section-ops"
	Property() string // e.g. "C18"
	// Generate builds a plan from a seed. This is the ONLY place a PRNG is used.
	Generate(seed uint64, tier string) Plan
	// Decode parses a plan previously produced by json.Marshal(plan).
	Decode(raw []byte) (Plan, error)
	// Execute runs the plan against the real code, checking invariants after
	// every event. It returns nil if every invariant held.
	Execute(p Plan, c *RunCtx) *Failure
	// Shrink returns candidate simplifications of p, most aggressive first.
	Shrink(p Plan) []Plan
}

// Perturber is implemented by scenarios whose verdict can depend on process
// layout (the race-detector oracle): Perturb returns the plan with layout
// variant k.
type Perturber interface {
	Perturb(p Plan, k int) Plan
}

// Outcome of executing a plan in-process.
type Outcome struct {
	Fail        *Failure
	Fingerprint uint64
	Harness     *HarnessError
}

// ExecFunc executes a plan (in-process or in a child process) and reports the
// outcome. The minimiser is written against it.
type ExecFunc func(p Plan) Outcome

// RunInProcess executes p, converting an escaped panic that is not a
// HarnessError into a harness error as well (scenarios recover the panics that
// are library outcomes themselves, at the call site).
func RunInProcess(sc Scenario, p Plan, st *Stats, status *StatusPage, trace bool) (out Outcome, ctx *RunCtx) {
	return RunInProcessUntil(sc, p, st, status, trace, time.Time{})
}

// SeamReset / SeamStats are set (scen/seams_on.go) when the code under test was
// built from a copy whose clock readings and random draws are redirected to the
// simulator: SeamReset(seed) starts a run's simulated clock and seeded
// randomness, SeamStats reports how often each was used since.
var (
	SeamReset func(seed uint64)
	SeamStats func() (clock, random uint64)
	// SeamAdvance lets d of SIMULATED time pass (a stalled I/O call) and returns
	// how many timers of the code under test fired because of it; SeamTimers
	// reports how many timers the code under test has created in this process.
	SeamAdvance func(d time.Duration) int
	SeamTimers  func() uint64
)

// Goid returns the id of the calling goroutine (parsed from the stack header;
// about a microsecond — used only where a stall is armed or the code under
// test has created timers, i.e. never on the unchanged library).
func Goid() uint64 {
	var buf [64]byte
	b := buf[:runtime.Stack(buf[:], false)]
	id := uint64(0)
	for _, c := range b[len("goroutine "):] {
		if c < '0' || c > '9' {
			break
		}
		id = id*10 + uint64(c-'0')
	}
	return id
}

// RunInProcessUntil is RunInProcess with a deadline (shrink candidates only).
func RunInProcessUntil(sc Scenario, p Plan, st *Stats, status *StatusPage, trace bool, deadline time.Time) (out Outcome, ctx *RunCtx) {
	ctx = NewRunCtx(st, status, trace)
	ctx.Deadline = deadline
	defer func() {
		if r := recover(); r != nil {
			if _, ok := r.(CandidateTimeout); ok {
				out = Outcome{} // inconclusive: treated as "does not fail"
				return
			}
			if he, ok := r.(HarnessError); ok {
				out = Outcome{Harness: &he}
				return
			}
			panic(r)
		}
	}()
	if SeamReset != nil {
		SeamReset(PlanHash(p) | 1)
	}
	f := sc.Execute(p, ctx)
	if SeamStats != nil && st != nil {
		if nc, nr := SeamStats(); nc+nr > 0 {
			st.Add("probe.seam.clock_readings_by_the_code_under_test", int64(nc))
			st.Add("probe.seam.random_draws_by_the_code_under_test", int64(nr))
		}
	}
	return Outcome{Fail: f, Fingerprint: ctx.Fingerprint()}, ctx
}

// Minimise greedily applies Shrink candidates while the SAME named invariant
// keeps failing, within a time box. The clock only bounds effort; it never
// changes what a given plan does.
func Minimise(sc Scenario, p Plan, want *Failure, exec ExecFunc, box time.Duration) (Plan, *Failure, int) {
	deadline := time.Now().Add(box)
	cur, curFail := p, want
	tried := 0
	for {
		improved := false
		for _, cand := range sc.Shrink(cur) {
			if time.Now().After(deadline) {
				return cur, curFail, tried
			}
			tried++
			o := exec(cand)
			if o.Harness != nil || o.Fail == nil {
				continue
			}
			if o.Fail.Invariant == want.Invariant {
				cur, curFail = cand, o.Fail
				improved = true
				break
			}
		}
		if !improved {
			return cur, curFail, tried
		}
	}
}

// PlanHash is a stable hash of the plan's JSON.
func PlanHash(p Plan) uint64 {
	b, err := json.Marshal(p)
	if err != nil {
		panic(HarnessError{"plan not serialisable: " + err.Error()})
	}
	return HashBytes(0, b)
}

// Replay is the on-disk replay file.
type Replay struct {
	Property    string          `json:"property"`
	Scenario    string          `json:"scenario"`
	Build       string          `json:"build"` // which binary flavour executes it: plain | race | yield
	Seed        uint64          `json:"seed"`  // run seed that generated the original plan
	BatchSeed   uint64          `json:"batch_seed"`
	Invariant   string          `json:"invariant"`
	Step        int             `json:"step"`
	Detail      string          `json:"detail"`
	Death       bool            `json:"death,omitempty"` // the failure is a process death during a library call
	Minimised   bool            `json:"minimised"`
	ShrinkTried int             `json:"shrink_tried"`
	Plan        json.RawMessage `json:"plan"`
	// History, if set, says that the violation depends on state left behind by
	// EARLIER runs in the same process (a pool, a cache, a watermark): the plan
	// alone passes in a fresh process. The replay then re-executes exactly these
	// run indices, in order, in one fresh worker process; the violation must
	// occur at the last one.
	History *History `json:"history,omitempty"`
}

type History struct {
	Tier    string   `json:"tier"`
	Indices []uint64 `json:"run_indices"`
	Note    string   `json:"note"`
}
