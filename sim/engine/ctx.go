package engine

import (
	"fmt"
	"sort"
	"strings"
	"time"
)

// Failure is a violated, named invariant.
type Failure struct {
	Invariant string `json:"invariant"` // e.g. "C18.contain"
	Step      int    `json:"step"`      // scenario-defined step number (deterministic)
	Detail    string `json:"detail"`
}

func (f *Failure) String() string {
	if f == nil {
		return "<ok>"
	}
	return fmt.Sprintf("%s at step %d: %s", f.Invariant, f.Step, f.Detail)
}

func Failf(inv string, step int, format string, a ...interface{}) *Failure {
	return &Failure{Invariant: inv, Step: step, Detail: fmt.Sprintf(format, a...)}
}

// Stats are reach counters accumulated over a batch of runs by one worker.
type Stats struct {
	C          map[string]int64    // named counters: faults configured/fired, probes, ops
	States     map[uint64]struct{} // distinct model-state hashes (capped)
	StatesCap  int
	StatesOver int64               // insertions refused because of the cap
	Inter      map[uint64]struct{} // distinct interleavings (hash of the switch sequence), capped
}

func NewStats() *Stats {
	return &Stats{C: map[string]int64{}, States: map[uint64]struct{}{}, StatesCap: 1 << 20, Inter: map[uint64]struct{}{}}
}

func (s *Stats) Inc(name string)          { s.C[name]++ }
func (s *Stats) Add(name string, n int64) { s.C[name] += n }
func (s *Stats) State(h uint64) {
	if _, ok := s.States[h]; ok {
		return
	}
	if len(s.States) >= s.StatesCap {
		s.StatesOver++
		return
	}
	s.States[h] = struct{}{}
}
func (s *Stats) Interleaving(h uint64) {
	if len(s.Inter) < s.StatesCap {
		s.Inter[h] = struct{}{}
	}
}

// SortedCounters renders the counters deterministically.
func (s *Stats) SortedCounters() []string {
	keys := make([]string, 0, len(s.C))
	for k := range s.C {
		keys = append(keys, k)
	}
	sort.Strings(keys)
	out := make([]string, 0, len(keys))
	for _, k := range keys {
		out = append(out, fmt.Sprintf("%s=%d", k, s.C[k]))
	}
	return out
}

// RunCtx is the per-run context: the event log (as a fingerprint, optionally as
// text), the global event sequence number (the only "time"), and the status
// page used for write-ahead attribution of a process death.
type RunCtx struct {
	Seq    uint64
	hash   uint64
	Trace  bool
	Lines  []string
	Stats  *Stats
	Status *StatusPage
	// Events cap: exceeding it is a harness error unless a scenario says otherwise.
	MaxEvents uint64
	// Deadline, if set, aborts the execution (CandidateTimeout) once passed. It
	// is set ONLY for shrink candidates during minimisation — a candidate that
	// would take too long is simply not used; a real run never has a deadline.
	Deadline time.Time
	// RunStats: per-run facts the scenario reports for the non-triviality rule.
	LibCalls    int
	FaultsFired int
	Tasks       int
	Policies    int
	Switches    int
	HistoryLen  int // stateful-object scenarios: number of mutating calls in the history
}

func NewRunCtx(st *Stats, status *StatusPage, trace bool) *RunCtx {
	return &RunCtx{hash: 0xcbf29ce484222325, Stats: st, Status: status, Trace: trace, MaxEvents: 200000}
}

func (c *RunCtx) mix(x uint64) {
	c.hash ^= x
	c.hash *= 0x100000001b3
	c.hash ^= c.hash >> 29
}

// Ev appends an event to the log. Numeric arguments only: no addresses, no
// clocks. kind is a short static string.
func (c *RunCtx) Ev(task int, kind string, a ...int64) {
	c.Seq++
	c.mix(c.Seq)
	c.mix(uint64(task) + 0x1000)
	for i := 0; i < len(kind); i++ {
		c.mix(uint64(kind[i]))
	}
	for _, x := range a {
		c.mix(uint64(x))
	}
	if c.Trace {
		var b strings.Builder
		fmt.Fprintf(&b, "%6d t%d %-18s", c.Seq, task, kind)
		for _, x := range a {
			fmt.Fprintf(&b, " %d", x)
		}
		c.Lines = append(c.Lines, b.String())
	}
	if c.Seq&255 == 0 && !c.Deadline.IsZero() && time.Now().After(c.Deadline) {
		panic(CandidateTimeout{})
	}
	if c.Seq > c.MaxEvents {
		panic(HarnessError{fmt.Sprintf("event cap %d exceeded", c.MaxEvents)})
	}
}

// EvS logs an event carrying a string (error class, outcome digest).
func (c *RunCtx) EvS(task int, kind string, s string, a ...int64) {
	for i := 0; i < len(s); i++ {
		c.mix(uint64(s[i]) | 0x100)
	}
	c.Ev(task, kind, a...)
	if c.Trace && len(c.Lines) > 0 {
		c.Lines[len(c.Lines)-1] += " " + s
	}
}

func (c *RunCtx) Fingerprint() uint64 { return c.hash }

// CandidateTimeout is panicked by Ev when a shrink candidate exceeds its deadline.
type CandidateTimeout struct{}

// HarnessError is panicked for conditions that are the harness's fault (exit 2),
// never a property violation.
type HarnessError struct{ Msg string }

func (h HarnessError) Error() string { return "harness error: " + h.Msg }

// HashBytes is FNV-1a over a byte slice, for state hashes.
func HashBytes(h uint64, p []byte) uint64 {
	if h == 0 {
		h = 0xcbf29ce484222325
	}
	for _, b := range p {
		h ^= uint64(b)
		h *= 0x100000001b3
	}
	return h
}

func HashU64(h uint64, xs ...uint64) uint64 {
	if h == 0 {
		h = 0xcbf29ce484222325
	}
	for _, x := range xs {
		h ^= x
		h *= 0x100000001b3
		h ^= h >> 29
	}
	return h
}
