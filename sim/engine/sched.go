package engine

import (
	"sync"
)

// Schedule is the part of a plan that decides which task runs next. It is data:
// the same Schedule over the same tasks yields the same total order of events.
type Schedule struct {
	// Mode: "seq" (run the lowest-numbered runnable task until it ends),
	// "hash" (at yield number y re-pick iff H(Seed,y)%Den==0, choice
	// H(Seed^k,y)%#runnable), or "explicit" (only the listed switches happen).
	Mode     string   `json:"mode"`
	Seed     uint64   `json:"seed,omitempty"`
	Den      int      `json:"den,omitempty"`
	Explicit []Switch `json:"explicit,omitempty"`
}

// Switch: at global yield number At, run task To.
type Switch struct {
	At uint64 `json:"at"`
	To int    `json:"to"`
}

const maxRecordedSwitches = 8192

// Sched runs tasks (real goroutines) strictly one at a time. A task runs only
// between being resumed and its next Yield; hand-off is task-to-task. All
// scheduler state is touched only inside //go:norace functions and contains no
// maps and no appends, so that in a -race build (where hand-off is invisible to
// ThreadSanitizer by design) the harness itself produces no reports.
type Sched struct {
	sch      Schedule
	tasks    []*Task
	cur      int
	yieldNo  uint64
	expIdx   int
	back     signal
	wg       sync.WaitGroup
	rec      [maxRecordedSwitches]Switch
	nrec     int
	nswitch  int
	ilHash   uint64
	seq      uint64 // global event sequence for per-task logs
	deadlock bool
	nblock   int
	// InCall is set by scenarios around library calls so that statement-level
	// yields can count "switches inside a call".
	SwitchesInCall int
}

type Task struct {
	ID      int
	s       *Sched
	resume  signal
	done    bool
	fn      func(*Task)
	waiting func() bool
	Panic   interface{} // recovered panic value that escaped fn (a harness matter unless the scenario says otherwise)
	InCall  bool
	Live    bool // spawned while the scheduler was running (SpawnLive)
}

func NewSched(sch Schedule) *Sched {
	if sch.Mode == "" {
		sch.Mode = "seq"
	}
	if sch.Den <= 0 {
		sch.Den = 1
	}
	return &Sched{sch: sch, back: newSignal(), ilHash: 0xcbf29ce484222325}
}

// Spawn registers a task. Must be called before Run.
func (s *Sched) Spawn(fn func(t *Task)) *Task {
	t := &Task{ID: len(s.tasks), s: s, resume: newSignal(), fn: fn}
	s.tasks = append(s.tasks, t)
	return t
}

//go:norace
func (s *Sched) runnable(i int) bool {
	t := s.tasks[i]
	if t.done {
		return false
	}
	if t.waiting != nil && !t.waiting() {
		return false
	}
	return true
}

// decide returns the task to run after yield number y, or -1 if none is runnable.
//
//go:norace
func (s *Sched) decide(y uint64, cur int) int {
	n := len(s.tasks)
	nr := 0
	lowest := -1
	for i := 0; i < n; i++ {
		if s.runnable(i) {
			if lowest < 0 {
				lowest = i
			}
			nr++
		}
	}
	if nr == 0 {
		return -1
	}
	curOK := cur >= 0 && cur < n && s.runnable(cur)
	switch s.sch.Mode {
	case "hash":
		if curOK && H(s.sch.Seed, y)%uint64(s.sch.Den) != 0 {
			return cur
		}
		k := int(H(s.sch.Seed^0x5555aaaa, y) % uint64(nr))
		for i := 0; i < n; i++ {
			if s.runnable(i) {
				if k == 0 {
					return i
				}
				k--
			}
		}
	case "explicit":
		for s.expIdx < len(s.sch.Explicit) && s.sch.Explicit[s.expIdx].At < y {
			s.expIdx++
		}
		if s.expIdx < len(s.sch.Explicit) && s.sch.Explicit[s.expIdx].At == y {
			to := s.sch.Explicit[s.expIdx].To
			s.expIdx++
			if to >= 0 && to < n && s.runnable(to) {
				return to
			}
		}
	}
	if curOK {
		return cur
	}
	return lowest
}

//go:norace
func (s *Sched) record(y uint64, from, to int) {
	s.nswitch++
	if s.nrec < maxRecordedSwitches {
		s.rec[s.nrec] = Switch{At: y, To: to}
		s.nrec++
	}
	h := s.ilHash
	h ^= y*31 + uint64(to) + 1
	h *= 0x100000001b3
	h ^= h >> 29
	s.ilHash = h
	if from >= 0 && from < len(s.tasks) && s.tasks[from].InCall {
		s.SwitchesInCall++
	}
}

// Current returns the task that is running now (valid only when called from that
// task's goroutine, e.g. from a yield hook inside the code under test).
//
//go:norace
func (s *Sched) Current() *Task { return s.tasks[s.cur] }

// NextSeq hands out the global event sequence number to per-task logs.
//
//go:norace
func (s *Sched) NextSeq() uint64 {
	s.seq++
	return s.seq
}

// Yield is a scheduling point. It returns when the scheduler next picks this task.
//
//go:norace
func (t *Task) Yield() {
	s := t.s
	y := s.yieldNo
	s.yieldNo++
	next := s.decide(y, t.ID)
	if next == t.ID {
		return
	}
	if next < 0 {
		// nobody is runnable, including this task (it is waiting): deadlock.
		s.deadlock = true
		s.back.Send()
		t.resume.Recv() // never resumed
		return
	}
	s.record(y, t.ID, next)
	s.cur = next
	s.tasks[next].resume.Send()
	t.resume.Recv()
}

// Block is a scheduling point at which the calling task CANNOT make progress
// (it spins on a lock or a counter that another task must change): another
// runnable task is picked if there is one — under every schedule mode, "seq"
// included.
//
// It returns false — without giving way — if no other task is runnable: whether
// that is a deadlock is for the caller to decide (what the task waits for may be
// held by a goroutine that is not a task, see GiveUp).
//
//go:norace
func (t *Task) Block() bool {
	s := t.s
	n := len(s.tasks)
	nr := 0
	lowest := -1
	for i := 0; i < n; i++ {
		if i != t.ID && s.runnable(i) {
			if lowest < 0 {
				lowest = i
			}
			nr++
		}
	}
	if nr == 0 {
		return false
	}
	y := s.yieldNo
	s.yieldNo++
	next := lowest
	if s.sch.Mode == "hash" || s.sch.Mode == "explicit" {
		k := int(H(s.sch.Seed^0x3c3c9999, y) % uint64(nr))
		for i := 0; i < n; i++ {
			if i != t.ID && s.runnable(i) {
				if k == 0 {
					next = i
					break
				}
				k--
			}
		}
	}
	s.nblock++
	s.record(y, t.ID, next)
	s.cur = next
	s.tasks[next].resume.Send()
	t.resume.Recv()
	return true
}

// GiveUp declares a deadlock from inside a task: the task waits for something
// no runnable task can provide. Run returns false; the task never resumes.
//
//go:norace
func (t *Task) GiveUp() {
	s := t.s
	s.nblock++
	s.deadlock = true
	s.back.Send()
	t.resume.Recv()
}

// SpawnLive adds a task WHILE the scheduler runs (the code under test started
// a goroutine). It must be called from the task that is running; the new task
// becomes runnable at once and first runs when the schedule picks it.
func (s *Sched) SpawnLive(fn func(t *Task)) *Task {
	t := &Task{ID: len(s.tasks), s: s, resume: newSignal(), fn: fn, Live: true}
	s.tasks = append(s.tasks, t)
	s.wg.Add(1)
	go t.body()
	return t
}

// NumTasks returns the number of tasks, tasks spawned while running included.
func (s *Sched) NumTasks() int { return len(s.tasks) }

// TaskLive reports whether task t was spawned while running.
func (s *Sched) TaskLive(t int) bool { return s.tasks[t].Live }

// Blocks returns how often a task had to give way because it could not proceed.
func (s *Sched) Blocks() int { return s.nblock }

// WaitUntil parks the task until pred() is true. pred must be a pure function of
// simulated state (it is evaluated by whichever task is running).
func (t *Task) WaitUntil(pred func() bool) {
	for !pred() {
		t.waiting = pred
		t.Yield()
	}
	t.waiting = nil
}

//go:norace
func (t *Task) finish() {
	s := t.s
	t.done = true
	y := s.yieldNo
	s.yieldNo++
	next := s.decide(y, -1)
	if next < 0 {
		all := true
		for i := range s.tasks {
			if !s.tasks[i].done {
				all = false
			}
		}
		if !all {
			s.deadlock = true
		}
		s.back.Send()
		return
	}
	s.record(y, t.ID, next)
	s.cur = next
	s.tasks[next].resume.Send()
}

func (t *Task) body() {
	defer t.s.wg.Done()
	t.resume.Recv()
	func() {
		defer func() {
			if r := recover(); r != nil {
				t.Panic = r
			}
		}()
		t.fn(t)
	}()
	t.finish()
}

// Run executes all tasks to completion under the schedule and returns true, or
// false on deadlock (all remaining tasks waiting).
func (s *Sched) Run() bool {
	if len(s.tasks) == 0 {
		return true
	}
	s.wg.Add(len(s.tasks))
	for _, t := range s.tasks {
		go t.body()
	}
	first := s.decide(s.yieldNo, -1)
	s.yieldNo++
	if first < 0 {
		return false
	}
	s.cur = first
	s.tasks[first].resume.Send()
	s.back.Recv()
	if s.deadlock {
		return false
	}
	// Real synchronisation: publishes everything tasks wrote to the caller.
	s.wg.Wait()
	for _, t := range s.tasks {
		t.resume.Close()
	}
	s.back.Close()
	return true
}

// Recorded returns the switches that actually happened (capped) — the explicit
// schedule equivalent to this execution.
func (s *Sched) Recorded() []Switch {
	out := make([]Switch, s.nrec)
	copy(out, s.rec[:s.nrec])
	return out
}

// TaskPanic returns the panic value that escaped task t's body, if any.
func (s *Sched) TaskPanic(t int) interface{} { return s.tasks[t].Panic }

func (s *Sched) NumSwitches() int         { return s.nswitch }
func (s *Sched) Yields() uint64           { return s.yieldNo }
func (s *Sched) InterleavingHash() uint64 { return s.ilHash }
