package engine

import (
	"encoding/binary"
	"os"
	"syscall"
	"unsafe"
)

// StatusPage is a shared, file-backed page in which a worker records, with
// plain memory stores (no syscall), which run and which step it is executing.
// When the worker process dies (Go "fatal error", race-detector halt) the
// supervisor reads the file to attribute the death to a run and a step.
type StatusPage struct {
	b []byte
}

const statusSize = 4096

func OpenStatus(path string) (*StatusPage, error) {
	f, err := os.OpenFile(path, os.O_RDWR|os.O_CREATE|os.O_TRUNC, 0o644)
	if err != nil {
		return nil, err
	}
	defer f.Close()
	if err := f.Truncate(statusSize); err != nil {
		return nil, err
	}
	b, err := syscall.Mmap(int(f.Fd()), 0, statusSize, syscall.PROT_READ|syscall.PROT_WRITE, syscall.MAP_SHARED)
	if err != nil {
		return nil, err
	}
	return &StatusPage{b: b}, nil
}

//go:norace
func (s *StatusPage) put(slot int, v uint64) {
	if s == nil {
		return
	}
	*(*uint64)(unsafe.Pointer(&s.b[slot*8])) = v
}

// SetRun records the run index and seed about to execute and clears the step.
//
//go:norace
func (s *StatusPage) SetRun(idx, seed uint64) {
	s.put(0, idx)
	s.put(1, seed)
	s.put(2, 0)
	s.put(3, 0)
}

// SetStep records the step and whether a library call is in flight (1) or not (0).
//
//go:norace
func (s *StatusPage) SetStep(step uint64, inCall uint64) {
	s.put(2, step)
	s.put(3, inCall)
}

// SetDone marks the worker as having finished its batch normally.
func (s *StatusPage) SetDone() { s.put(4, 1) }

type StatusSnapshot struct {
	Idx, Seed, Step, InCall, Done uint64
}

func ReadStatus(path string) (StatusSnapshot, error) {
	b, err := os.ReadFile(path)
	if err != nil || len(b) < 40 {
		return StatusSnapshot{}, err
	}
	g := func(i int) uint64 { return binary.LittleEndian.Uint64(b[i*8:]) }
	return StatusSnapshot{g(0), g(1), g(2), g(3), g(4)}, nil
}
