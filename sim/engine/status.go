package engine

import (
	"encoding/binary"
	"os"
	"syscall"
	"unsafe"
)

// StatusPage is a shared, file-backed page in which a worker records, with
// plain memory stores (no syscall), which run and which step it is executing.
// When the worker process dies (Go "fatal error", race-detector halt) the
// supervisor reads the file to attribute the death to a run and a step.
type StatusPage struct {
	b []byte
}

const statusSize = 4096

func OpenStatus(path string) (*StatusPage, error) {
	f, err := os.OpenFile(path, os.O_RDWR|os.O_CREATE|os.O_TRUNC, 0o644)
	if err != nil {
		return nil, err
	}
	defer f.Close()
	if err := f.Truncate(statusSize); err != nil {
		return nil, err
	}
	b, err := syscall.Mmap(int(f.Fd()), 0, statusSize, syscall.PROT_READ|syscall.PROT_WRITE, syscall.MAP_SHARED)
	if err != nil {
		return nil, err
	}
	return &StatusPage{b: b}, nil
}

//go:norace
func (s *StatusPage) put(slot int, v uint64) {
	if s == nil {
		return
	}
	*(*uint64)(unsafe.Pointer(&s.b[slot*8])) = v
}

// SetRun records the run index and seed about to execute and clears the step.
//
//go:norace
func (s *StatusPage) SetRun(idx, seed uint64) {
	s.put(0, idx)
	s.put(1, seed)
	s.put(2, 0)
	s.put(3, 0)
	s.put(5, 0)
	s.put(6, 0)
}

// SetStep records the step and whether a library call is in flight (1) or not (0).
//
//go:norace
func (s *StatusPage) SetStep(step uint64, inCall uint64) {
	s.put(2, step)
	s.put(3, inCall)
}

// SetNote records a short description of the in-flight call (for the report of
// a process death). Only used on paths where a death is conceivable.
//
//go:norace
func (s *StatusPage) SetNote(note string) {
	if s == nil {
		return
	}
	n := len(note)
	if n > 300 {
		n = 300
	}
	for i := 0; i < n; i++ {
		s.b[128+i] = note[i]
	}
	s.put(5, uint64(n))
}

// SetMinimising marks that the worker is executing shrink candidates in-process
// (a death now is not a property of the ORIGINAL plan).
func (s *StatusPage) SetMinimising(on bool) {
	v := uint64(0)
	if on {
		v = 1
	}
	s.put(6, v)
}

// SetDone marks the worker as having finished its batch normally.
func (s *StatusPage) SetDone() { s.put(4, 1) }

type StatusSnapshot struct {
	Idx, Seed, Step, InCall, Done uint64
	Minimising                    uint64
	Note                          string
}

func ReadStatus(path string) (StatusSnapshot, error) {
	b, err := os.ReadFile(path)
	if err != nil || len(b) < 40 {
		return StatusSnapshot{}, err
	}
	g := func(i int) uint64 { return binary.LittleEndian.Uint64(b[i*8:]) }
	st := StatusSnapshot{Idx: g(0), Seed: g(1), Step: g(2), InCall: g(3), Done: g(4), Minimising: g(6)}
	if n := g(5); n > 0 && n <= 300 && len(b) >= 128+int(n) {
		st.Note = string(b[128 : 128+n])
	}
	return st, nil
}
