//go:build !race

package engine

// RaceBuild reports whether this binary was built with -race.
const RaceBuild = false

// signal is a one-slot hand-off. In ordinary builds it is a channel.
type signal struct{ c chan struct{} }

func newSignal() signal { return signal{c: make(chan struct{}, 1)} }
func (s signal) Send()  { s.c <- struct{}{} }
func (s signal) Recv()  { <-s.c }
func (s signal) Close() {}
