//go:build race

package engine

import (
	"syscall"
	"unsafe"
)

// RaceBuild reports whether this binary was built with -race.
const RaceBuild = true

// signal is a one-slot hand-off. In -race builds it is a pipe driven by RAW
// read(2)/write(2) system calls inside //go:norace functions, so that
// ThreadSanitizer observes NO happens-before edge between two tasks — exactly
// as between unsynchronised threads in production — while the scheduler still
// guarantees that only one task runs at a time (DESIGN §3.5). syscall.Read and
// syscall.Write are deliberately not used: they carry race.Acquire/Release
// annotations.
type signal struct{ r, w int }

func newSignal() signal {
	var fds [2]int
	if err := syscall.Pipe(fds[:]); err != nil {
		panic(HarnessError{"pipe: " + err.Error()})
	}
	return signal{r: fds[0], w: fds[1]}
}

//go:norace
func (s signal) Send() {
	var b [1]byte
	for {
		n, _, e := syscall.Syscall(syscall.SYS_WRITE, uintptr(s.w), uintptr(unsafe.Pointer(&b[0])), 1)
		if e == syscall.EINTR {
			continue
		}
		if e != 0 || n != 1 {
			panic(HarnessError{"pipe write failed"})
		}
		return
	}
}

//go:norace
func (s signal) Recv() {
	var b [1]byte
	for {
		n, _, e := syscall.Syscall(syscall.SYS_READ, uintptr(s.r), uintptr(unsafe.Pointer(&b[0])), 1)
		if e == syscall.EINTR {
			continue
		}
		if e != 0 || n != 1 {
			panic(HarnessError{"pipe read failed"})
		}
		return
	}
}

func (s signal) Close() {
	syscall.Close(s.r)
	syscall.Close(s.w)
}
