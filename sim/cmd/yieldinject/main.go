// Command yieldinject rewrites a SCRATCH COPY of openacid/low so that the
// deterministic scheduler can preempt inside library calls: it inserts
//
//	verifhook.Yield()
//
// before every statement of every function body (block, case and comm clause
// lists, function literals included) in the non-test files of the given
// packages, and adds the tiny package github.com/openacid/low/verifhook to the
// copy. /repo itself is never touched (DESIGN §3.6). If a construct cannot be
// handled the command fails (the check then exits 2).
//
//	yieldinject <copy-root> <pkgdir>...
package main

import (
	"bytes"
	"fmt"
	"go/ast"
	"go/format"
	"go/parser"
	"go/token"
	"os"
	"os/exec"
	"path/filepath"
	"sort"
	"strings"
)

const hookPkg = `// Package verifhook is added to a scratch copy of the module by /verif's
// yieldinject; it does not exist in the real repository.
//
// Besides the statement-level Yield it holds COOPERATIVE stand-ins for the
// blocking primitives of package sync (Mutex, RWMutex, Once, WaitGroup) and for
// the go statement. In a simulation (hooks set) a task that cannot proceed
// gives way to another task instead of blocking the thread, and a goroutine
// started by the code under test becomes a task of the simulated scheduler, so
// the simulator decides every interleaving inside such code too. Without hooks
// (the library's own tests on the rewritten copy, world construction) they
// behave like the real thing.
package verifhook

import (
	"context"
	"math/rand"
	"os"
	"reflect"
	"runtime"
	"sync"
	"sync/atomic"
	"time"
)

// ---- seams for the clock and for randomness -------------------------------
//
// Every time.Now / Since / Until / Sleep and every package-level math/rand
// function of the code under test is redirected here (all build flavours).
// Inactive (seed 0: the library's own tests on the rewritten copy) they are the
// real thing. Active, the clock is SIMULATED — each reading
// advances it by a step drawn from the run's seed and the number of readings so
// far, from nothing to an hour, so that "not yet expired" and "long expired"
// both happen within one run — and random numbers are a hash of the seed and
// the number of draws so far: one seed, one execution.

var seamSeed, nowCalls, randCalls uint64
var clockNs int64

// In a process of the simulator (check.sh exports VERIF_SIM) the seams are
// active from the very first instruction, so that package-level initialisers
// of the code under test (var start = time.Now()) are repeatable too.
func init() {
	if os.Getenv("VERIF_SIM") != "" {
		seamSeed = 1
	}
}

// SeamReset starts a run: seed != 0 activates the simulated clock and the
// seeded randomness, 0 switches back to the real ones.
func SeamReset(seed uint64) {
	atomic.StoreUint64(&seamSeed, seed)
	atomic.StoreUint64(&nowCalls, 0)
	atomic.StoreUint64(&randCalls, 0)
	atomic.StoreInt64(&clockNs, 0)
	timerMu.Lock()
	timers = nil
	atomic.StoreInt32(&nTimers, 0)
	timerMu.Unlock()
}

// SeamStats reports how often the clock was read and how many random numbers
// were drawn since SeamReset.
func SeamStats() (clock, random uint64) {
	return atomic.LoadUint64(&nowCalls), atomic.LoadUint64(&randCalls)
}

func mix(a, b uint64) uint64 {
	x := a ^ (b+0x9e3779b97f4a7c15)*0xbf58476d1ce4e5b9
	x ^= x >> 30
	x *= 0xbf58476d1ce4e5b9
	x ^= x >> 27
	x *= 0x94d049bb133111eb
	x ^= x >> 31
	return x
}

var clockSteps = [...]int64{0, 1, 50, 1000, 1000, 20000, 1000000, 1000000, 30000000, 1000000000, 60000000000, 3600000000000}

func Now() time.Time {
	s := atomic.LoadUint64(&seamSeed)
	if s == 0 {
		return time.Now()
	}
	n := atomic.AddUint64(&nowCalls, 1)
	c := atomic.AddInt64(&clockNs, clockSteps[mix(s, n)%uint64(len(clockSteps))])
	if atomic.LoadInt32(&nTimers) > 0 {
		fireDue(c)
	}
	return time.Unix(1600000000, 0).Add(time.Duration(c))
}
func Since(t time.Time) time.Duration { return Now().Sub(t) }
func Until(t time.Time) time.Duration { return t.Sub(Now()) }
func Sleep(d time.Duration) {
	if atomic.LoadUint64(&seamSeed) == 0 {
		time.Sleep(d)
		return
	}
	if d > 0 {
		c := atomic.AddInt64(&clockNs, int64(d)) // simulated time passes, real time does not
		if atomic.LoadInt32(&nTimers) > 0 {
			fireDue(c)
		}
	}
}

// ---- simulated timers -------------------------------------------------------
//
// time.NewTimer / After / AfterFunc and context.WithTimeout / WithDeadline of
// the code under test create a REAL timer (so nothing ever hangs: left alone it
// fires after its real duration) that is also registered with the simulated
// clock. Whenever simulated time passes — a clock reading, a Sleep, or the
// simulator stalling an I/O call (Advance) — every registered timer whose
// simulated deadline has been reached and that is still pending is made to fire
// at once: a timeout of a second costs nothing and happens exactly when the plan
// makes an underlying call slow.

type simTimer struct {
	due  int64 // simulated deadline
	t    *time.Timer
	done chan struct{} // AfterFunc: closed when the callback has returned
}

var timerMu sync.Mutex
var timers []*simTimer
var nTimers int32
var timersMade uint64

// TimersMade reports how many timers the code under test has created since the
// process started (the simulator's I/O looks at goroutine identities only once
// this is non-zero).
func TimersMade() uint64 { return atomic.LoadUint64(&timersMade) }

func register(st *simTimer, d time.Duration) {
	if d < 0 {
		d = 0
	}
	st.due = atomic.LoadInt64(&clockNs) + int64(d)
	atomic.AddUint64(&timersMade, 1)
	timerMu.Lock()
	if len(timers) < 1<<20 { // (beyond a million pending timers the real ones are all there is)
		// min-heap on the simulated deadline
		timers = append(timers, st)
		for i := len(timers) - 1; i > 0; {
			p := (i - 1) / 2
			if timers[p].due <= timers[i].due {
				break
			}
			timers[p], timers[i] = timers[i], timers[p]
			i = p
		}
		atomic.StoreInt32(&nTimers, int32(len(timers)))
	}
	timerMu.Unlock()
}

// fireDue fires every registered timer that is due at simulated time now and
// returns how many were still pending.
func fireDue(now int64) int {
	var due []*simTimer
	timerMu.Lock()
	for len(timers) > 0 && timers[0].due <= now {
		due = append(due, timers[0])
		n := len(timers) - 1
		timers[0] = timers[n]
		timers[n] = nil
		timers = timers[:n]
		for i := 0; ; {
			l, r, m := 2*i+1, 2*i+2, i
			if l < n && timers[l].due < timers[m].due {
				m = l
			}
			if r < n && timers[r].due < timers[m].due {
				m = r
			}
			if m == i {
				break
			}
			timers[i], timers[m] = timers[m], timers[i]
			i = m
		}
	}
	atomic.StoreInt32(&nTimers, int32(len(timers)))
	timerMu.Unlock()
	n := 0
	for _, st := range due {
		// Stop reports whether the timer was still pending: one that the code
		// under test has stopped, or that has fired for real, is left alone.
		if st.t.Stop() {
			st.t.Reset(0)
			n++
			if st.done != nil {
				select { // the callback runs on a goroutine of the runtime: give it a moment
				case <-st.done:
				case <-time.After(5 * time.Millisecond):
				}
			}
		}
	}
	return n
}

// Advance lets d of simulated time pass (the simulator stalls an I/O call of
// the code under test) and returns how many timers fired because of it.
func Advance(d time.Duration) int {
	if atomic.LoadUint64(&seamSeed) == 0 || d <= 0 {
		return 0
	}
	c := atomic.AddInt64(&clockNs, int64(d))
	if atomic.LoadInt32(&nTimers) == 0 {
		return 0
	}
	return fireDue(c)
}

func NewTimer(d time.Duration) *time.Timer {
	t := time.NewTimer(d)
	if atomic.LoadUint64(&seamSeed) != 0 {
		register(&simTimer{t: t}, d)
	}
	return t
}

func After(d time.Duration) <-chan time.Time { return NewTimer(d).C }

// WithTimeout / WithDeadline stand in for the functions of package context: the
// deadline is one of the simulated clock.
func WithTimeout(parent context.Context, d time.Duration) (context.Context, context.CancelFunc) {
	if atomic.LoadUint64(&seamSeed) == 0 {
		return context.WithTimeout(parent, d)
	}
	inner, cancel := context.WithCancel(parent)
	c := &deadlineCtx{Context: inner, at: time.Unix(1600000000, 0).Add(time.Duration(atomic.LoadInt64(&clockNs)) + d)}
	if pd, ok := parent.Deadline(); ok && pd.Before(c.at) {
		c.at = pd
	}
	t := AfterFunc(d, func() {
		atomic.StoreInt32(&c.expired, 1)
		cancel()
	})
	return c, func() { t.Stop(); cancel() }
}

func WithDeadline(parent context.Context, at time.Time) (context.Context, context.CancelFunc) {
	if atomic.LoadUint64(&seamSeed) == 0 {
		return context.WithDeadline(parent, at)
	}
	return WithTimeout(parent, at.Sub(time.Unix(1600000000, 0).Add(time.Duration(atomic.LoadInt64(&clockNs)))))
}

type deadlineCtx struct {
	context.Context
	at      time.Time
	expired int32
}

func (c *deadlineCtx) Deadline() (time.Time, bool) { return c.at, true }
func (c *deadlineCtx) Err() error {
	err := c.Context.Err()
	if err != nil && atomic.LoadInt32(&c.expired) == 1 {
		return context.DeadlineExceeded
	}
	return err
}

func rnd() uint64 {
	s := atomic.LoadUint64(&seamSeed)
	if s == 0 {
		return rand.Uint64()
	}
	return mix(s^0x5bd1e9955bd1e995, atomic.AddUint64(&randCalls, 1))
}

func RandUint64() uint64   { return rnd() }
func RandUint32() uint32   { return uint32(rnd() >> 32) }
func RandInt63() int64     { return int64(rnd() >> 1) }
func RandInt31() int32     { return int32(rnd() >> 33) }
func RandInt() int         { return int(uint(rnd()) >> 1) }
func RandFloat64() float64 { return float64(rnd()>>11) / (1 << 53) }
func RandFloat32() float32 { return float32(rnd()>>40) / (1 << 24) }
func RandSeed(int64)       {}
func RandInt63n(n int64) int64 {
	if n <= 0 {
		panic("invalid argument to Int63n")
	}
	return int64(rnd() % uint64(n))
}
func RandInt31n(n int32) int32 {
	if n <= 0 {
		panic("invalid argument to Int31n")
	}
	return int32(rnd() % uint64(n))
}
func RandIntn(n int) int {
	if n <= 0 {
		panic("invalid argument to Intn")
	}
	return int(rnd() % uint64(n))
}
func RandPerm(n int) []int {
	m := make([]int, n)
	for i := range m {
		j := int(rnd() % uint64(i+1))
		m[i] = m[j]
		m[j] = i
	}
	return m
}
func RandShuffle(n int, swap func(i, j int)) {
	if n < 0 {
		panic("invalid argument to Shuffle")
	}
	for i := n - 1; i > 0; i-- {
		swap(i, int(rnd()%uint64(i+1)))
	}
}
func RandRead(p []byte) (int, error) {
	for i := range p {
		p[i] = byte(rnd())
	}
	return len(p), nil
}

// math/rand/v2 spellings
func RandIntN(n int) int {
	if n <= 0 {
		panic("invalid argument to IntN")
	}
	return int(rnd() % uint64(n))
}
func RandInt64N(n int64) int64 {
	if n <= 0 {
		panic("invalid argument to Int64N")
	}
	return int64(rnd() % uint64(n))
}
func RandInt32N(n int32) int32 {
	if n <= 0 {
		panic("invalid argument to Int32N")
	}
	return int32(rnd() % uint64(n))
}
func RandUint64N(n uint64) uint64 {
	if n == 0 {
		panic("invalid argument to Uint64N")
	}
	return rnd() % n
}
func RandUint32N(n uint32) uint32 {
	if n == 0 {
		panic("invalid argument to Uint32N")
	}
	return uint32(rnd() % uint64(n))
}
func RandInt64() int64 { return int64(rnd() >> 1) }
func RandInt32() int32 { return int32(rnd() >> 33) }

// Y, when set by the simulator, is a scheduling point: the scheduler may let
// another task run.
var Y func()

// B, when set, is called by a task that cannot proceed: the scheduler must let
// another task run.
var B func()

// G, when set, starts f as a new simulated task.
var G func(f func())

// foreign > 0: code of the library is running on a goroutine that is NOT a task
// of the simulator (a finalizer, a time.AfterFunc callback). Such a goroutine
// must never enter the scheduler — it would be taken for the current task. While
// one runs, statement-level yields are skipped for every goroutine (telling the
// caller apart costs a stack dump: affordable at blocking points, not before
// every statement); the schedule of that run is then not fully the simulator's,
// which may cost replayability, never a hang.
var foreign int32
var foreignIDs sync.Map // goroutine id -> struct{}

// goid parses the goroutine id out of the stack header (slow: only used while a
// foreign goroutine is active).
func goid() uint64 {
	var buf [64]byte
	b := buf[:runtime.Stack(buf[:], false)]
	id := uint64(0)
	for _, c := range b[len("goroutine "):] {
		if c < '0' || c > '9' {
			break
		}
		id = id*10 + uint64(c-'0')
	}
	return id
}

func foreignCall(f func()) {
	id := goid()
	foreignIDs.Store(id, struct{}{})
	atomic.AddInt32(&foreign, 1)
	defer func() {
		atomic.AddInt32(&foreign, -1)
		foreignIDs.Delete(id)
	}()
	f()
}

// onForeign reports whether the CALLING goroutine is a foreign one.
func onForeign() bool {
	if atomic.LoadInt32(&foreign) == 0 {
		return false
	}
	_, ok := foreignIDs.Load(goid())
	return ok
}

// Yield is called before every statement of the instrumented packages.
func Yield() {
	if Y != nil && atomic.LoadInt32(&foreign) == 0 {
		Y()
	}
}

func block() {
	// (a TASK that cannot proceed must give way even while a foreign goroutine
	// is active — it may be waiting for the very lock a parked task holds)
	if B != nil && !onForeign() {
		B()
		return
	}
	runtime.Gosched()
}

// Go stands in for the go statement (function value and arguments are
// evaluated by the caller, as the go statement does).
func Go(f func()) {
	if G != nil && !onForeign() {
		G(f)
		return
	}
	if G != nil {
		go foreignCall(f) // started by a foreign goroutine: foreign too
		return
	}
	go f()
}

// SetFinalizer stands in for runtime.SetFinalizer: the finalizer runs on the
// runtime's finalizer goroutine, i.e. as foreign code.
func SetFinalizer(obj interface{}, finalizer interface{}) {
	if finalizer == nil || reflect.TypeOf(finalizer).Kind() != reflect.Func {
		runtime.SetFinalizer(obj, finalizer)
		return
	}
	fv := reflect.ValueOf(finalizer)
	runtime.SetFinalizer(obj, reflect.MakeFunc(fv.Type(), func(args []reflect.Value) (out []reflect.Value) {
		foreignCall(func() { out = fv.Call(args) })
		return
	}).Interface())
}

// AfterFunc stands in for time.AfterFunc: f runs on a goroutine of the runtime.
func AfterFunc(d time.Duration, f func()) *time.Timer {
	if atomic.LoadUint64(&seamSeed) == 0 {
		return time.AfterFunc(d, func() { foreignCall(f) })
	}
	st := &simTimer{done: make(chan struct{})}
	var once sync.Once
	st.t = time.AfterFunc(d, func() {
		defer once.Do(func() { close(st.done) })
		foreignCall(f)
	})
	register(st, d)
	return st.t
}

// Mutex stands in for sync.Mutex.
type Mutex struct{ mu sync.Mutex }

func (m *Mutex) Lock() {
	if B == nil {
		m.mu.Lock()
		return
	}
	for !m.mu.TryLock() {
		block()
	}
}
func (m *Mutex) Unlock()       { m.mu.Unlock() }
func (m *Mutex) TryLock() bool { return m.mu.TryLock() }

// RWMutex stands in for sync.RWMutex.
type RWMutex struct{ mu sync.RWMutex }

func (m *RWMutex) Lock() {
	if B == nil {
		m.mu.Lock()
		return
	}
	for !m.mu.TryLock() {
		block()
	}
}
func (m *RWMutex) Unlock()       { m.mu.Unlock() }
func (m *RWMutex) TryLock() bool { return m.mu.TryLock() }
func (m *RWMutex) RLock() {
	if B == nil {
		m.mu.RLock()
		return
	}
	for !m.mu.TryRLock() {
		block()
	}
}
func (m *RWMutex) RUnlock()       { m.mu.RUnlock() }
func (m *RWMutex) TryRLock() bool { return m.mu.TryRLock() }

type rlocker RWMutex

func (r *rlocker) Lock()   { (*RWMutex)(r).RLock() }
func (r *rlocker) Unlock() { (*RWMutex)(r).RUnlock() }

// RLocker returns a Locker whose Lock and Unlock are RLock and RUnlock.
func (m *RWMutex) RLocker() sync.Locker { return (*rlocker)(m) }

// Once stands in for sync.Once.
type Once struct {
	done uint32
	m    Mutex
}

func (o *Once) Do(f func()) {
	if atomic.LoadUint32(&o.done) == 1 {
		return
	}
	o.m.Lock()
	defer o.m.Unlock()
	if o.done == 0 {
		defer atomic.StoreUint32(&o.done, 1)
		f()
	}
}

// WaitGroup stands in for sync.WaitGroup.
type WaitGroup struct{ n int64 }

func (w *WaitGroup) Add(delta int) {
	if atomic.AddInt64(&w.n, int64(delta)) < 0 {
		panic("sync: negative WaitGroup counter")
	}
}
func (w *WaitGroup) Done() { w.Add(-1) }
func (w *WaitGroup) Wait() {
	for atomic.LoadInt64(&w.n) > 0 {
		block()
	}
}
`

const yieldText = "verifhook.Yield(); "

// seamed: the selectors of package time and of math/rand (v1 and v2, package-
// level functions only) that are redirected to verifhook.
var seamedTime = map[string]bool{"Now": true, "Since": true, "Until": true, "Sleep": true, "AfterFunc": true, "NewTimer": true, "After": true}
var seamedCtx = map[string]bool{"WithTimeout": true, "WithDeadline": true}
var seamedRand = map[string]bool{"Uint64": true, "Uint32": true, "Int63": true, "Int31": true, "Int": true, "Float64": true, "Float32": true, "Seed": true,
	"Int63n": true, "Int31n": true, "Intn": true, "Perm": true, "Shuffle": true, "Read": true,
	"IntN": true, "Int64N": true, "Int32N": true, "Uint64N": true, "Uint32N": true, "Int64": true, "Int32": true}

func importName(f *ast.File, path, def string) string {
	for _, im := range f.Imports {
		if im.Path.Value == `"`+path+`"` {
			if im.Name != nil {
				return im.Name.Name
			}
			return def
		}
	}
	return ""
}

// seamFile redirects clock readings and package-level random numbers of one
// file to verifhook. Returns the number of references replaced.
func seamFile(path string) (int, error) {
	src, err := os.ReadFile(path)
	if err != nil {
		return 0, err
	}
	fset, f, err := parse(path, src)
	if err != nil {
		return 0, err
	}
	timeName := importName(f, "time", "time")
	randName := importName(f, "math/rand", "rand")
	rand2Name := importName(f, "math/rand/v2", "rand")
	rtName := importName(f, "runtime", "runtime")
	ctxName := importName(f, "context", "context")
	if timeName == "" && randName == "" && rand2Name == "" && rtName == "" && ctxName == "" {
		return 0, nil
	}
	type edit struct {
		from, to int
		text     string
	}
	var edits []edit
	used := map[string]bool{}
	ast.Inspect(f, func(n ast.Node) bool {
		se, ok := n.(*ast.SelectorExpr)
		if !ok {
			return true
		}
		id, ok := se.X.(*ast.Ident)
		if !ok || id.Obj != nil { // (a local variable named like the package shadows it)
			return true
		}
		switch {
		case timeName != "" && id.Name == timeName && seamedTime[se.Sel.Name]:
			edits = append(edits, edit{fset.Position(se.Pos()).Offset, fset.Position(se.End()).Offset, "verifhook." + se.Sel.Name})
			used[timeName+".Duration"] = true
		case ctxName != "" && id.Name == ctxName && seamedCtx[se.Sel.Name]:
			edits = append(edits, edit{fset.Position(se.Pos()).Offset, fset.Position(se.End()).Offset, "verifhook." + se.Sel.Name})
			used[ctxName+".Context"] = true
		case rtName != "" && id.Name == rtName && se.Sel.Name == "SetFinalizer":
			// (a finalizer runs on a goroutine of the runtime: see verifhook.SetFinalizer)
			edits = append(edits, edit{fset.Position(se.Pos()).Offset, fset.Position(se.End()).Offset, "verifhook.SetFinalizer"})
			used[rtName+".Error"] = true
		case randName != "" && id.Name == randName && seamedRand[se.Sel.Name]:
			edits = append(edits, edit{fset.Position(se.Pos()).Offset, fset.Position(se.End()).Offset, "verifhook.Rand" + se.Sel.Name})
			used[randName+".Source"] = true
		case rand2Name != "" && id.Name == rand2Name && seamedRand[se.Sel.Name]:
			edits = append(edits, edit{fset.Position(se.Pos()).Offset, fset.Position(se.End()).Offset, "verifhook.Rand" + se.Sel.Name})
			used[rand2Name+".Source"] = true
		}
		return true
	})
	if len(edits) == 0 {
		return 0, nil
	}
	sort.Slice(edits, func(i, j int) bool { return edits[i].from > edits[j].from })
	out := append([]byte(nil), src...)
	for _, e := range edits {
		out = append(append(append([]byte(nil), out[:e.from]...), e.text...), out[e.to:]...)
	}
	// an import may have lost its last use
	for u := range used {
		out = append(out, []byte("\n\nvar _ "+u+"\n")...)
	}
	pkgEnd := fset.Position(f.Name.End()).Offset
	var with bytes.Buffer
	with.Write(out[:pkgEnd])
	with.WriteString("\n\nimport \"github.com/openacid/low/verifhook\"\n")
	with.Write(out[pkgEnd:])
	formatted, err := format.Source(with.Bytes())
	if err != nil {
		return 0, fmt.Errorf("gofmt of the seamed file failed: %v", err)
	}
	return len(edits), os.WriteFile(path, formatted, 0o644)
}

// seamAll applies seamFile to every non-test file of every package directory
// under root (the whole module copy); a package that no longer compiles is
// restored.
func seamAll(root string) int {
	total := 0
	byDir := map[string][]string{}
	filepath.Walk(root, func(p string, info os.FileInfo, err error) error {
		if err != nil {
			return nil
		}
		if info.IsDir() {
			if b := info.Name(); b == "verifhook" || b == "testdata" || b == "vendor" || (strings.HasPrefix(b, ".") && p != root) {
				return filepath.SkipDir
			}
			return nil
		}
		if strings.HasSuffix(p, ".go") && !strings.HasSuffix(p, "_test.go") {
			byDir[filepath.Dir(p)] = append(byDir[filepath.Dir(p)], p)
		}
		return nil
	})
	dirs := make([]string, 0, len(byDir))
	for d := range byDir {
		dirs = append(dirs, d)
	}
	sort.Strings(dirs)
	for _, d := range dirs {
		saved := map[string][]byte{}
		n := 0
		failed := ""
		for _, m := range byDir[d] {
			orig, _ := os.ReadFile(m)
			k, err := seamFile(m)
			if err != nil {
				failed = err.Error()
				break
			}
			if k > 0 {
				saved[m] = orig
				n += k
			}
		}
		if n > 0 && failed == "" {
			rel, _ := filepath.Rel(root, d)
			cmd := exec.Command("go", "build", "./"+rel+"/")
			cmd.Dir = root
			if out, err := cmd.CombinedOutput(); err != nil {
				failed = "the seamed package does not compile: " + strings.TrimSpace(string(out))
			}
		}
		if failed != "" {
			for m, orig := range saved {
				_ = os.WriteFile(m, orig, 0o644)
			}
			fmt.Printf("yieldinject: %s: clock/randomness NOT redirected (%s)\n", d, failed)
			continue
		}
		total += n
	}
	return total
}

// shimmed are the blocking primitives of package sync that verifhook has a
// cooperative stand-in for; unsupported ones keep a package uninstrumented.
var shimmed = map[string]bool{"Mutex": true, "RWMutex": true, "Once": true, "WaitGroup": true}
var unsupported = map[string]bool{"Cond": true, "NewCond": true, "OnceFunc": true, "OnceValue": true, "OnceValues": true}

func parse(path string, src []byte) (*token.FileSet, *ast.File, error) {
	fset := token.NewFileSet()
	f, err := parser.ParseFile(fset, path, src, parser.ParseComments)
	return fset, f, err
}

func syncImportName(f *ast.File) string {
	for _, im := range f.Imports {
		if im.Path.Value == `"sync"` {
			if im.Name != nil {
				return im.Name.Name
			}
			return "sync"
		}
	}
	return ""
}

// shimSync replaces sync.Mutex / RWMutex / Once / WaitGroup by their verifhook
// stand-ins (text edits at the selector positions).
func shimSync(path string, src []byte) ([]byte, int, error) {
	fset, f, err := parse(path, src)
	if err != nil {
		return nil, 0, err
	}
	name := syncImportName(f)
	if name == "" {
		return src, 0, nil
	}
	type edit struct {
		from, to int
		text     string
	}
	var edits []edit
	ast.Inspect(f, func(n ast.Node) bool {
		if se, ok := n.(*ast.SelectorExpr); ok {
			if id, ok := se.X.(*ast.Ident); ok && id.Name == name && shimmed[se.Sel.Name] {
				edits = append(edits, edit{fset.Position(se.Pos()).Offset, fset.Position(se.End()).Offset, "verifhook." + se.Sel.Name})
			}
		}
		return true
	})
	if len(edits) == 0 {
		return src, 0, nil
	}
	sort.Slice(edits, func(i, j int) bool { return edits[i].from > edits[j].from })
	out := append([]byte(nil), src...)
	for _, e := range edits {
		out = append(append(append([]byte(nil), out[:e.from]...), e.text...), out[e.to:]...)
	}
	// the import of sync may have lost its last use
	out = append(out, []byte("\n\nvar _ "+name+".Locker\n")...)
	return out, len(edits), nil
}

// rewriteGo turns every go statement into a call of verifhook.Go. The function
// value and the arguments are evaluated by the caller first, exactly as the go
// statement does; only the call itself runs in the new task. Innermost
// statements first, re-parsing after each rewrite.
func rewriteGo(path string, src []byte) ([]byte, int, error) {
	count := 0
	for {
		fset, f, err := parse(path, src)
		if err != nil {
			return nil, 0, err
		}
		var target *ast.GoStmt
		ast.Inspect(f, func(n ast.Node) bool {
			g, ok := n.(*ast.GoStmt)
			if !ok || target != nil {
				return target == nil
			}
			inner := false
			ast.Inspect(g.Call, func(m ast.Node) bool {
				if _, ok := m.(*ast.GoStmt); ok {
					inner = true
				}
				return !inner
			})
			if !inner {
				target = g
			}
			return true
		})
		if target == nil {
			return src, count, nil
		}
		off := func(p token.Pos) int { return fset.Position(p).Offset }
		var b bytes.Buffer
		b.WriteString("{\n__vf := ")
		b.Write(src[off(target.Call.Fun.Pos()):off(target.Call.Fun.End())])
		b.WriteString("\n")
		var call bytes.Buffer
		call.WriteString("__vf(")
		for i, a := range target.Call.Args {
			if i > 0 {
				call.WriteString(", ")
			}
			text := src[off(a.Pos()):off(a.End())]
			inline := false
			switch x := a.(type) {
			case *ast.BasicLit:
				inline = true
			case *ast.Ident:
				inline = x.Name == "nil" || x.Name == "true" || x.Name == "false"
			}
			if inline {
				call.Write(text)
			} else {
				fmt.Fprintf(&b, "__va%d := %s\n", i, text)
				fmt.Fprintf(&call, "__va%d", i)
			}
			if i == len(target.Call.Args)-1 && target.Call.Ellipsis.IsValid() {
				call.WriteString("...")
			}
		}
		call.WriteString(")")
		b.WriteString("verifhook.Go(func() { ")
		b.Write(call.Bytes())
		b.WriteString(" })\n}")
		src = append(append(append([]byte(nil), src[:off(target.Pos())]...), b.Bytes()...), src[off(target.End()):]...)
		count++
	}
}

// instrumentFile rewrites one file: sync stand-ins, go statements, then the
// yield call inserted TEXTUALLY at the byte offset of every statement start
// (positions from go/parser); the result is gofmt'ed. Working on text keeps
// every comment and build constraint exactly where it was.
func instrumentFile(path string) (int, error) {
	src, err := os.ReadFile(path)
	if err != nil {
		return 0, err
	}
	src, nsync, err := shimSync(path, src)
	if err != nil {
		return 0, err
	}
	src, ngo, err := rewriteGo(path, src)
	if err != nil {
		return 0, err
	}
	fset, f, err := parse(path, src)
	if err != nil {
		return 0, err
	}
	var offsets []int
	add := func(list []ast.Stmt) {
		for _, s := range list {
			switch s.(type) {
			case *ast.CaseClause, *ast.CommClause:
				continue // the "statements" of a switch/select body are its clauses
			}
			offsets = append(offsets, fset.Position(s.Pos()).Offset)
		}
	}
	ast.Inspect(f, func(n ast.Node) bool {
		switch x := n.(type) {
		case *ast.BlockStmt:
			if x != nil {
				add(x.List)
			}
		case *ast.CaseClause:
			add(x.Body)
		case *ast.CommClause:
			add(x.Body)
		}
		return true
	})
	if len(offsets) == 0 && nsync == 0 && ngo == 0 {
		return 0, nil
	}
	sort.Ints(offsets)
	var out bytes.Buffer
	prev := 0
	for _, off := range offsets {
		out.Write(src[prev:off])
		out.WriteString(yieldText)
		prev = off
	}
	out.Write(src[prev:])
	// add the import right after the package clause
	text := out.Bytes()
	pkgEnd := fset.Position(f.Name.End()).Offset
	// offsets before pkgEnd cannot exist (no statements before the package clause)
	var withImport bytes.Buffer
	withImport.Write(text[:pkgEnd])
	if importName(f, "github.com/openacid/low/verifhook", "verifhook") == "" { // (the seams pass may have added it)
		withImport.WriteString("\n\nimport \"github.com/openacid/low/verifhook\"\n")
	}
	if len(offsets) == 0 && ngo == 0 {
		// only type names were replaced: nothing may call into the package
		withImport.WriteString("\nvar _ = verifhook.Yield\n")
	}
	withImport.Write(text[pkgEnd:])
	formatted, err := format.Source(withImport.Bytes())
	if err != nil {
		return 0, fmt.Errorf("gofmt of the rewritten file failed: %v", err)
	}
	nGoStmts += ngo
	nSyncRefs += nsync
	return len(offsets), os.WriteFile(path, formatted, 0o644)
}

var nGoStmts, nSyncRefs int

func main() {
	if len(os.Args) < 2 {
		fmt.Fprintln(os.Stderr, "usage: yieldinject <copy-root> [<pkgdir>...]   (no package: only the clock/randomness seams)")
		os.Exit(2)
	}
	root := os.Args[1]
	if root == "/repo" || strings.HasPrefix(root, "/repo/") {
		fmt.Fprintln(os.Stderr, "yieldinject: refusing to rewrite /repo itself")
		os.Exit(2)
	}
	if err := os.MkdirAll(filepath.Join(root, "verifhook"), 0o755); err != nil {
		fmt.Fprintln(os.Stderr, err)
		os.Exit(1)
	}
	if err := os.WriteFile(filepath.Join(root, "verifhook", "hook.go"), []byte(hookPkg), 0o644); err != nil {
		fmt.Fprintln(os.Stderr, err)
		os.Exit(1)
	}
	// seams first (whole module copy), then — for the listed packages — the
	// statement-level yields and the cooperative stand-ins
	nSeams := seamAll(root)
	fmt.Printf("yieldinject: %d clock readings / random draws redirected to the simulator's seams\n", nSeams)
	total, files := 0, 0
	for _, pkg := range os.Args[2:] {
		matches, _ := filepath.Glob(filepath.Join(root, pkg, "*.go"))
		// Blocking synchronisation: sync.Mutex, RWMutex, Once and WaitGroup are
		// replaced by cooperative stand-ins (package verifhook) and go statements
		// by verifhook.Go, so the scheduler may switch tasks while the code under
		// test holds a lock — the other task gives way instead of blocking for
		// real. A package that uses a primitive WITHOUT a stand-in (sync.Cond,
		// OnceFunc, …) is left uninstrumented: a real block inside a cooperative
		// schedule would deadlock the simulation — a false alarm. Such a package is
		// still covered by the -race flavour, where tasks switch only between
		// calls. Non-blocking primitives (sync/atomic, sync.Pool, sync.Map) are
		// fine: no yield point lies inside the standard library.
		blocking := ""
		for _, m := range matches {
			if strings.HasSuffix(m, "_test.go") {
				continue
			}
			src, _ := os.ReadFile(m)
			fset := token.NewFileSet()
			f, err := parser.ParseFile(fset, m, src, 0)
			if err != nil {
				continue
			}
			// channel operations block for real: once goroutines are simulated
			// tasks, a task parked on a channel would wait for a task that only
			// runs when the parked one gives way
			ast.Inspect(f, func(n ast.Node) bool {
				switch x := n.(type) {
				case *ast.ChanType, *ast.SendStmt, *ast.SelectStmt:
					blocking = "channels"
				case *ast.UnaryExpr:
					if x.Op == token.ARROW {
						blocking = "channels"
					}
				}
				return true
			})
			syncName := syncImportName(f)
			if syncName == "" {
				continue
			}
			ast.Inspect(f, func(n ast.Node) bool {
				if se, ok := n.(*ast.SelectorExpr); ok {
					if id, ok := se.X.(*ast.Ident); ok && id.Name == syncName && unsupported[se.Sel.Name] {
						blocking = "sync." + se.Sel.Name
					}
				}
				return true
			})
			if syncName == "." || syncName == "_" {
				blocking = "sync (dot/blank import)"
			}
		}
		if blocking != "" {
			fmt.Printf("yieldinject: package %s uses %s (no cooperative stand-in): NOT instrumented\n", pkg, blocking)
			continue
		}
		saved := map[string][]byte{}
		pkgTotal, pkgFiles := 0, 0
		failed := ""
		for _, m := range matches {
			if strings.HasSuffix(m, "_test.go") {
				continue
			}
			orig, _ := os.ReadFile(m)
			saved[m] = orig
			n, err := instrumentFile(m)
			if err != nil {
				failed = fmt.Sprintf("%s: %v", m, err)
				break
			}
			pkgTotal += n
			if n > 0 {
				pkgFiles++
			}
		}
		if failed == "" {
			// the rewritten package must still compile (a go statement whose
			// operands cannot be bound to variables, e.g. a builtin or an
			// uninstantiated generic function, does not)
			cmd := exec.Command("go", "build", "./"+pkg+"/")
			cmd.Dir = root
			if out, err := cmd.CombinedOutput(); err != nil {
				failed = "the rewritten package does not compile: " + strings.TrimSpace(string(out))
			}
		}
		if failed != "" {
			for m, orig := range saved {
				_ = os.WriteFile(m, orig, 0o644)
			}
			fmt.Printf("yieldinject: package %s NOT instrumented (%s)\n", pkg, failed)
			continue
		}
		total += pkgTotal
		files += pkgFiles
	}
	fmt.Printf("yieldinject: %d yield points in %d files; %d sync primitives replaced by cooperative stand-ins, %d go statements turned into simulated tasks\n", total, files, nSyncRefs, nGoStmts)
}
