// Command yieldinject rewrites a SCRATCH COPY of openacid/low so that the
// deterministic scheduler can preempt inside library calls: it inserts
//
//	verifhook.Yield()
//
// before every statement of every function body (block, case and comm clause
// lists, function literals included) in the non-test files of the given
// packages, and adds the tiny package github.com/openacid/low/verifhook to the
// copy. /repo itself is never touched (DESIGN §3.6). If a construct cannot be
// handled the command fails (the check then exits 2).
//
//	yieldinject <copy-root> <pkgdir>...
package main

import (
	"bytes"
	"fmt"
	"go/ast"
	"go/format"
	"go/parser"
	"go/token"
	"os"
	"path/filepath"
	"sort"
	"strings"
)

const hookPkg = `// Package verifhook is added to a scratch copy of the module by /verif's
// yieldinject; it does not exist in the real repository.
package verifhook

// Y, when set by the simulator, parks the calling task and lets the scheduler
// decide who runs next.
var Y func()

// Yield is called before every statement of the instrumented packages.
func Yield() {
	if Y != nil {
		Y()
	}
}
`

const yieldText = "verifhook.Yield(); "

// instrumentFile inserts the yield call TEXTUALLY at the byte offset of every
// statement start (positions from go/parser), then gofmt's the result. Working
// on text keeps every comment and build constraint exactly where it was.
func instrumentFile(path string) (int, error) {
	src, err := os.ReadFile(path)
	if err != nil {
		return 0, err
	}
	fset := token.NewFileSet()
	f, err := parser.ParseFile(fset, path, src, parser.ParseComments)
	if err != nil {
		return 0, err
	}
	var offsets []int
	add := func(list []ast.Stmt) {
		for _, s := range list {
			switch s.(type) {
			case *ast.CaseClause, *ast.CommClause:
				continue // the "statements" of a switch/select body are its clauses
			}
			offsets = append(offsets, fset.Position(s.Pos()).Offset)
		}
	}
	ast.Inspect(f, func(n ast.Node) bool {
		switch x := n.(type) {
		case *ast.BlockStmt:
			if x != nil {
				add(x.List)
			}
		case *ast.CaseClause:
			add(x.Body)
		case *ast.CommClause:
			add(x.Body)
		}
		return true
	})
	if len(offsets) == 0 {
		return 0, nil
	}
	sort.Ints(offsets)
	var out bytes.Buffer
	prev := 0
	for _, off := range offsets {
		out.Write(src[prev:off])
		out.WriteString(yieldText)
		prev = off
	}
	out.Write(src[prev:])
	// add the import right after the package clause
	text := out.Bytes()
	pkgEnd := fset.Position(f.Name.End()).Offset
	// offsets before pkgEnd cannot exist (no statements before the package clause)
	var withImport bytes.Buffer
	withImport.Write(text[:pkgEnd])
	withImport.WriteString("\n\nimport \"github.com/openacid/low/verifhook\"\n")
	withImport.Write(text[pkgEnd:])
	formatted, err := format.Source(withImport.Bytes())
	if err != nil {
		return 0, fmt.Errorf("gofmt of the rewritten file failed: %v", err)
	}
	return len(offsets), os.WriteFile(path, formatted, 0o644)
}

func main() {
	if len(os.Args) < 3 {
		fmt.Fprintln(os.Stderr, "usage: yieldinject <copy-root> <pkgdir>...")
		os.Exit(2)
	}
	root := os.Args[1]
	if root == "/repo" || strings.HasPrefix(root, "/repo/") {
		fmt.Fprintln(os.Stderr, "yieldinject: refusing to rewrite /repo itself")
		os.Exit(2)
	}
	total, files := 0, 0
	for _, pkg := range os.Args[2:] {
		matches, _ := filepath.Glob(filepath.Join(root, pkg, "*.go"))
		// A package that uses BLOCKING synchronisation is left uninstrumented:
		// the cooperative scheduler must never switch tasks while the code under
		// test holds a lock (the other task would block for real and the
		// simulation would deadlock — a false alarm). Such a package is still
		// covered by the -race flavour, where tasks switch only between calls.
		// Non-blocking primitives (sync/atomic, sync.Pool, sync.Map) are fine: no
		// yield point lies inside the standard library.
		blocking := ""
		for _, m := range matches {
			if strings.HasSuffix(m, "_test.go") {
				continue
			}
			src, _ := os.ReadFile(m)
			fset := token.NewFileSet()
			f, err := parser.ParseFile(fset, m, src, 0)
			if err != nil {
				continue
			}
			syncName := ""
			for _, im := range f.Imports {
				if im.Path.Value == `"sync"` {
					syncName = "sync"
					if im.Name != nil {
						syncName = im.Name.Name
					}
				}
			}
			if syncName == "" {
				continue
			}
			ast.Inspect(f, func(n ast.Node) bool {
				if se, ok := n.(*ast.SelectorExpr); ok {
					if id, ok := se.X.(*ast.Ident); ok && id.Name == syncName {
						switch se.Sel.Name {
						case "Mutex", "RWMutex", "Once", "Cond", "NewCond", "WaitGroup", "Locker", "OnceFunc", "OnceValue", "OnceValues":
							blocking = "sync." + se.Sel.Name
						}
					}
				}
				return true
			})
			if syncName == "." || syncName == "_" {
				blocking = "sync (dot/blank import)"
			}
		}
		if blocking != "" {
			fmt.Printf("yieldinject: package %s uses %s: NOT instrumented\n", pkg, blocking)
			continue
		}
		for _, m := range matches {
			if strings.HasSuffix(m, "_test.go") {
				continue
			}
			n, err := instrumentFile(m)
			if err != nil {
				fmt.Fprintf(os.Stderr, "yieldinject: %s: %v\n", m, err)
				os.Exit(1)
			}
			total += n
			if n > 0 {
				files++
			}
		}
	}
	if err := os.MkdirAll(filepath.Join(root, "verifhook"), 0o755); err != nil {
		fmt.Fprintln(os.Stderr, err)
		os.Exit(1)
	}
	if err := os.WriteFile(filepath.Join(root, "verifhook", "hook.go"), []byte(hookPkg), 0o644); err != nil {
		fmt.Fprintln(os.Stderr, err)
		os.Exit(1)
	}
	fmt.Printf("yieldinject: %d yield points in %d files\n", total, files)
}
