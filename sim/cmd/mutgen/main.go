// Command mutgen writes first-order mutants of one Go source file: the classic
// operators (relational and arithmetic operator replacement, boundary shifts of
// integer literals, negated conditions, dropped statements, swapped logical
// connectives). It is used by mutants/auto.sh to measure how many mutants that
// SURVIVE the library's own test suite are killed by the property checks.
//
//	mutgen <file.go> <outdir>   writes <outdir>/m0001.go … and <outdir>/index.tsv
package main

import (
	"fmt"
	"go/ast"
	"go/parser"
	"go/token"
	"os"
	"path/filepath"
	"sort"
	"strconv"
)

type edit struct {
	from, to int
	text     string
	line     int
	desc     string
}

var binRepl = map[token.Token][]string{
	token.LSS: {"<=", ">"}, token.LEQ: {"<", ">="}, token.GTR: {">=", "<"}, token.GEQ: {">", "<="},
	token.EQL: {"!="}, token.NEQ: {"=="},
	token.ADD: {"-"}, token.SUB: {"+"}, token.MUL: {"/"}, token.QUO: {"*"}, token.REM: {"/"},
	token.SHL: {">>"}, token.SHR: {"<<"}, token.AND: {"|"}, token.OR: {"&"}, token.XOR: {"&"}, token.AND_NOT: {"&"},
	token.LAND: {"||"}, token.LOR: {"&&"},
}

var assignRepl = map[token.Token][]string{
	token.ADD_ASSIGN: {"-="}, token.SUB_ASSIGN: {"+="}, token.OR_ASSIGN: {"&=", "="}, token.AND_ASSIGN: {"|="},
	token.SHL_ASSIGN: {">>="}, token.SHR_ASSIGN: {"<<="}, token.MUL_ASSIGN: {"/="},
}

func main() {
	if len(os.Args) != 3 {
		fmt.Fprintln(os.Stderr, "usage: mutgen <file.go> <outdir>")
		os.Exit(2)
	}
	path, out := os.Args[1], os.Args[2]
	src, err := os.ReadFile(path)
	if err != nil {
		fmt.Fprintln(os.Stderr, err)
		os.Exit(2)
	}
	fset := token.NewFileSet()
	f, err := parser.ParseFile(fset, path, src, parser.ParseComments)
	if err != nil {
		fmt.Fprintln(os.Stderr, err)
		os.Exit(2)
	}
	off := func(p token.Pos) int { return fset.Position(p).Offset }
	var edits []edit
	add := func(from, to token.Pos, text, desc string) {
		edits = append(edits, edit{off(from), off(to), text, fset.Position(from).Line, desc})
	}
	ast.Inspect(f, func(n ast.Node) bool {
		switch x := n.(type) {
		case *ast.GenDecl:
			if x.Tok == token.IMPORT {
				return false
			}
		case *ast.BinaryExpr:
			for _, r := range binRepl[x.Op] {
				add(x.OpPos, x.OpPos+token.Pos(len(x.Op.String())), r, x.Op.String()+" -> "+r)
			}
		case *ast.AssignStmt:
			for _, r := range assignRepl[x.Tok] {
				add(x.TokPos, x.TokPos+token.Pos(len(x.Tok.String())), r, x.Tok.String()+" -> "+r)
			}
		case *ast.IncDecStmt:
			r := "--"
			if x.Tok == token.DEC {
				r = "++"
			}
			add(x.TokPos, x.TokPos+2, r, x.Tok.String()+" -> "+r)
		case *ast.BasicLit:
			if x.Kind == token.INT {
				if v, err := strconv.ParseInt(x.Value, 0, 64); err == nil {
					add(x.Pos(), x.End(), fmt.Sprint(v+1), x.Value+" -> "+fmt.Sprint(v+1))
					if v > 0 {
						add(x.Pos(), x.End(), fmt.Sprint(v-1), x.Value+" -> "+fmt.Sprint(v-1))
					}
				}
			}
		case *ast.IfStmt:
			add(x.Cond.Pos(), x.Cond.End(), "!("+string(src[off(x.Cond.Pos()):off(x.Cond.End())])+")", "negated if condition")
		case *ast.BlockStmt:
			for _, st := range x.List {
				switch s := st.(type) {
				case *ast.ExprStmt:
					add(s.Pos(), s.End(), "{}", "statement dropped: "+firstLine(src[off(s.Pos()):off(s.End())]))
				case *ast.IncDecStmt:
					add(s.Pos(), s.End(), "{}", "statement dropped: "+firstLine(src[off(s.Pos()):off(s.End())]))
				case *ast.AssignStmt:
					if s.Tok != token.DEFINE {
						add(s.Pos(), s.End(), "{}", "statement dropped: "+firstLine(src[off(s.Pos()):off(s.End())]))
					}
				case *ast.ReturnStmt, *ast.BranchStmt:
					// (dropping these rarely compiles or is the identity)
				}
			}
		}
		return true
	})
	sort.SliceStable(edits, func(i, j int) bool { return edits[i].from < edits[j].from })
	if err := os.MkdirAll(out, 0o755); err != nil {
		fmt.Fprintln(os.Stderr, err)
		os.Exit(2)
	}
	idx, _ := os.Create(filepath.Join(out, "index.tsv"))
	defer idx.Close()
	for i, e := range edits {
		m := append(append(append([]byte(nil), src[:e.from]...), e.text...), src[e.to:]...)
		name := fmt.Sprintf("m%04d.go", i+1)
		if err := os.WriteFile(filepath.Join(out, name), m, 0o644); err != nil {
			fmt.Fprintln(os.Stderr, err)
			os.Exit(2)
		}
		fmt.Fprintf(idx, "%s\t%d\t%s\n", name, e.line, e.desc)
	}
	fmt.Printf("%d mutants of %s\n", len(edits), path)
}

func firstLine(b []byte) string {
	for i, c := range b {
		if c == '\n' {
			return string(b[:i]) + " …"
		}
	}
	return string(b)
}
