package main

import (
	"bytes"
	"encoding/json"
	"flag"
	"fmt"
	"os"
	"os/exec"
	"path/filepath"
	"strings"
	"time"

	"verifsim/scen"
)

// cmdSelftest proves determinism on a large sample (DESIGN §9.1): for every
// leg, N run indices are executed in fresh processes with GOMAXPROCS 1, 4 and 16
// (twice at 16) and the plan hashes + event-log fingerprints must be identical;
// then the same N runs are executed by 3 and by 8 worker processes and the
// XOR of (fingerprint, index) over the batch must agree.
func cmdSelftest(args []string) int {
	fs := flag.NewFlagSet("selftest", flag.ExitOnError)
	legsFlag := fs.String("legs", "", "scenario=binary,…")
	n := fs.Int("n", 200, "")
	batch := fs.Uint64("seed", 1, "")
	scratch := fs.String("scratch", os.TempDir(), "")
	out := fs.String("out", "", "")
	fs.Parse(args)
	start := time.Now()
	type legOut struct {
		Scenario   string `json:"scenario"`
		Build      string `json:"build"`
		Runs       int    `json:"runs"`
		Processes  int    `json:"fresh_processes"`
		GOMAXPROCS []int  `json:"gomaxprocs"`
		WorkerSets []int  `json:"worker_counts"`
		Verdict    string `json:"verdict"`
	}
	var legs []legOut
	for _, part := range strings.Split(*legsFlag, ",") {
		kv := strings.SplitN(part, "=", 2)
		info := scen.Get(kv[0])
		if len(kv) != 2 || info == nil {
			return fatal2("bad -legs entry %q", part)
		}
		dir := filepath.Join(*scratch, "selftest-"+kv[0])
		_ = os.MkdirAll(dir, 0o755)
		var ref string
		procs := 0
		for _, gmp := range []string{"1", "4", "16", "16"} {
			cmd := exec.Command(kv[1], "fingerprints", "-scenario", kv[0], "-seed", fmt.Sprint(*batch), "-from", "0", "-to", fmt.Sprint(*n))
			cmd.Env = childEnv(info, dir, "GOMAXPROCS="+gmp)
			var so, se bytes.Buffer
			cmd.Stdout, cmd.Stderr = &so, &se
			if err := cmd.Run(); err != nil {
				return fatal2("selftest: %s child failed (GOMAXPROCS=%s): %v\n%s", kv[0], gmp, err, tail(se.String(), 2000))
			}
			procs++
			if ref == "" {
				ref = so.String()
			} else if so.String() != ref {
				return fatal2("selftest: %s is NOT deterministic across processes (GOMAXPROCS=%s)", kv[0], gmp)
			}
		}
		var xors []uint64
		for _, w := range []int{3, 8} {
			wd := filepath.Join(dir, fmt.Sprintf("w%d", w))
			_ = os.MkdirAll(wd, 0o755)
			x := uint64(0)
			for i := 0; i < w; i++ {
				cmd := exec.Command(kv[1], "worker", "-scenario", kv[0], "-seed", fmt.Sprint(*batch), "-worker", fmt.Sprint(i), "-of", fmt.Sprint(w), "-runs", fmt.Sprint(*n), "-dir", wd)
				cmd.Env = childEnv(info, wd, "GOMAXPROCS=2")
				if b, err := cmd.CombinedOutput(); err != nil {
					return fatal2("selftest: %s worker failed: %v\n%s", kv[0], err, tail(string(b), 2000))
				}
				procs++
				rb, err := os.ReadFile(filepath.Join(wd, fmt.Sprintf("result-%d.json", i)))
				if err != nil {
					return fatal2("selftest: %v", err)
				}
				var wr WorkerResult
				if err := json.Unmarshal(rb, &wr); err != nil {
					return fatal2("selftest: %v", err)
				}
				if len(wr.Failures) > 0 {
					return fatal2("selftest: %s reports a violation on the tree under test; run the property check first", kv[0])
				}
				x ^= wr.FPXor
			}
			xors = append(xors, x)
		}
		if xors[0] != xors[1] {
			return fatal2("selftest: %s: batch fingerprint differs between 3 and 8 workers (%x vs %x)", kv[0], xors[0], xors[1])
		}
		legs = append(legs, legOut{Scenario: kv[0], Build: info.Build, Runs: *n, Processes: procs, GOMAXPROCS: []int{1, 4, 16, 16}, WorkerSets: []int{3, 8}, Verdict: "identical plan hashes, event-log fingerprints and batch fingerprints"})
		fmt.Printf("selftest %s: %d runs x %d fresh processes: deterministic\n", kv[0], *n, procs)
	}
	if *out != "" {
		b, _ := json.MarshalIndent(map[string]interface{}{"seed": *batch, "legs": legs, "wall_s": time.Since(start).Seconds()}, "", " ")
		_ = os.MkdirAll(filepath.Dir(*out), 0o755)
		if err := os.WriteFile(*out, b, 0o644); err != nil {
			return fatal2("%v", err)
		}
	}
	fmt.Println("OK determinism self-test")
	return 0
}
