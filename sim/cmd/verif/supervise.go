package main

import (
	"bytes"
	"encoding/binary"
	"encoding/json"
	"flag"
	"fmt"
	"os"
	"os/exec"
	"path/filepath"
	"sort"
	"strings"
	"sync"
	"time"

	"verifsim/engine"
	"verifsim/scen"
)

type leg struct {
	scenario string
	binary   string
	info     *scen.Info
}

type legResult struct {
	leg        leg
	results    []*WorkerResult
	violations []violation
	hashes     map[uint64]struct{}
	wall       float64
	determ     string
	procs      int
	// deaths beyond the first per invariant (not minimised again), and race
	// reports no fresh process reproduced
	extraDeaths  int
	unreproduced []string
}

type violation struct {
	History  *engine.History
	Scenario string
	Build    string
	Binary   string
	Seed     uint64
	Fail     *engine.Failure
	Plan     json.RawMessage
	Death    bool
	Min      bool
	Tried    int
}

// procResult is how a child process ended.
type procResult struct {
	exit   int
	output string
	kind   string // "" (exited by itself) | "mem" (RSS watchdog) | "hang" (no progress) | "timeout"
	status engine.StatusSnapshot
	pid    int
}

const (
	rssLimitBytes = 6 << 30
	hangSeconds   = 90
)

func rssBytes(pid int) int64 {
	b, err := os.ReadFile(fmt.Sprintf("/proc/%d/statm", pid))
	if err != nil {
		return 0
	}
	var size, resident int64
	fmt.Sscan(string(b), &size, &resident)
	return resident * int64(os.Getpagesize())
}

// runProc runs cmd to completion under three watchdogs: resident memory (the
// sandbox has no memory limit), lack of progress on the status page while a
// library call is in flight (a hang), and an overall timeout. The watchdogs
// only ever KILL; what a kill means is decided by the caller from the status
// page (a kill outside an in-flight library call is a harness matter).
func runProc(cmd *exec.Cmd, statusPath string, overall time.Duration) procResult {
	var buf bytes.Buffer
	cmd.Stdout, cmd.Stderr = &buf, &buf
	if err := cmd.Start(); err != nil {
		return procResult{exit: -1, output: err.Error(), kind: "start"}
	}
	done := make(chan error, 1)
	go func() { done <- cmd.Wait() }()
	tick := time.NewTicker(250 * time.Millisecond)
	defer tick.Stop()
	start := time.Now()
	var last engine.StatusSnapshot
	lastChange := time.Now()
	kind := ""
	var werr error
loop:
	for {
		select {
		case werr = <-done:
			break loop
		case <-tick.C:
			if kind != "" {
				continue
			}
			if rssBytes(cmd.Process.Pid) > rssLimitBytes {
				kind = "mem"
				_ = cmd.Process.Kill()
				continue
			}
			if statusPath != "" {
				if st, err := engine.ReadStatus(statusPath); err == nil {
					if st != last {
						last, lastChange = st, time.Now()
					} else if st.InCall == 1 && time.Since(lastChange) > hangSeconds*time.Second {
						kind = "hang"
						_ = cmd.Process.Kill()
						continue
					}
				}
			}
			if time.Since(start) > overall {
				kind = "timeout"
				_ = cmd.Process.Kill()
			}
		}
	}
	res := procResult{kind: kind, output: buf.String(), pid: cmd.Process.Pid}
	if statusPath != "" {
		res.status, _ = engine.ReadStatus(statusPath)
	}
	if werr != nil {
		if ee, ok := werr.(*exec.ExitError); ok {
			res.exit = ee.ExitCode()
		} else {
			res.exit = -1
		}
	}
	return res
}

// deathKind classifies an abnormal end: "fatal" = the Go runtime aborted the
// process by itself (fatal error, race-detector halt), "mem"/"hang" = killed by
// a watchdog during a call.
func deathKind(r procResult) string {
	if r.kind != "" {
		return r.kind
	}
	return "fatal"
}

func fatal2(format string, a ...interface{}) int {
	fmt.Fprintf(os.Stderr, "HARNESS-ERROR: "+format+"\n", a...)
	fmt.Printf("HARNESS-ERROR: "+format+"\n", a...)
	return 2
}

func childEnv(info *scen.Info, scratch string, extra ...string) []string {
	env := append(os.Environ(), "GOTRACEBACK=single")
	if info.Build == "race" {
		env = append(env, "GORACE=halt_on_error=1 atexit_sleep_ms=0 exitcode=66 log_path="+filepath.Join(scratch, "race"))
	}
	return append(env, extra...)
}

// execChild executes one plan in a fresh child process.
func execChild(l leg, scratch string, plan []byte, timeout time.Duration) (out engine.Outcome, died bool, kind string, exitCode int, stderr string, st engine.StatusSnapshot) {
	pf := filepath.Join(scratch, "exec-plan.json")
	sf := filepath.Join(scratch, "exec-status")
	_ = os.WriteFile(pf, plan, 0o644)
	_ = os.Remove(sf)
	cmd := exec.Command(l.binary, "exec", "-scenario", l.scenario, "-plan", pf, "-status", sf)
	cmd.Env = childEnv(l.info, scratch)
	r := runProc(cmd, sf, timeout)
	st = r.status
	stderr = r.output
	rl := filepath.Join(scratch, fmt.Sprintf("race.%d", r.pid))
	if b, err := os.ReadFile(rl); err == nil {
		stderr += string(b)
		_ = os.Remove(rl)
	}
	exitCode = r.exit
	if r.kind == "start" || r.kind == "timeout" {
		return engine.Outcome{Harness: &engine.HarnessError{Msg: "exec child: " + r.kind}}, false, r.kind, exitCode, stderr, st
	}
	if r.kind == "" {
		for _, line := range strings.Split(r.output, "\n") {
			if strings.HasPrefix(line, "EXEC-OUTCOME ") {
				var eo struct {
					Fail        *engine.Failure `json:"fail"`
					Fingerprint uint64          `json:"fingerprint"`
					Harness     string          `json:"harness"`
				}
				if json.Unmarshal([]byte(line[len("EXEC-OUTCOME "):]), &eo) == nil {
					out.Fail, out.Fingerprint = eo.Fail, eo.Fingerprint
					if eo.Harness != "" {
						out.Harness = &engine.HarnessError{Msg: eo.Harness}
					}
					return out, false, "", exitCode, stderr, st
				}
			}
		}
	}
	return out, true, deathKind(r), exitCode, stderr, st
}

// deathFailure turns a process death during an in-flight call into a Failure,
// or nil if it is not attributable to the code under test.
func deathFailure(info *scen.Info, kind string, exitCode int, stderr string, st engine.StatusSnapshot) *engine.Failure {
	if info.DeathInvariant == nil || st.InCall != 1 {
		return nil
	}
	inv := info.DeathInvariant(kind, exitCode, stderr)
	if inv == "" {
		return nil
	}
	what := "process died during an in-flight library call: "
	switch kind {
	case "mem":
		what = fmt.Sprintf("the in-flight library call grew the process beyond %d GiB resident and was killed: ", rssLimitBytes>>30)
	case "hang":
		what = fmt.Sprintf("the in-flight library call did not return within %d s and was killed: ", hangSeconds)
	}
	detail := what + st.Note + " " + firstLines(stderr, 3)
	if strings.Contains(stderr, "WARNING: DATA RACE") {
		var fr []string
		for _, line := range strings.Split(stderr, "\n") {
			line = strings.TrimSpace(line)
			if strings.HasPrefix(line, "github.com/openacid/low/") && len(fr) < 4 {
				fr = append(fr, line)
			}
		}
		detail = "the race detector reports conflicting unsynchronised accesses (between two simulated tasks, or goroutines the code under test started), in: " + strings.Join(fr, ", ")
	}
	return &engine.Failure{Invariant: inv, Step: int(st.Step), Detail: detail}
}

func runLeg(l leg, tier string, batch uint64, workers int, scratch string) (*legResult, int) {
	lr := &legResult{leg: l, hashes: map[uint64]struct{}{}}
	info := l.info
	start := time.Now()
	dir := filepath.Join(scratch, l.scenario)
	if err := os.MkdirAll(dir, 0o755); err != nil {
		return nil, fatal2("mkdir: %v", err)
	}

	// --- determinism self-test: same indices, fresh processes, GOMAXPROCS 1/4/16
	nDet := 20
	var ref string
	selftestDied := ""
	for _, gmp := range []string{"1", "4", "16"} {
		cmd := exec.Command(l.binary, "fingerprints", "-scenario", l.scenario, "-tier", tier, "-seed", fmt.Sprint(batch), "-from", "0", "-to", fmt.Sprint(nDet))
		cmd.Env = childEnv(info, dir, "GOMAXPROCS="+gmp)
		var so, se bytes.Buffer
		cmd.Stdout, cmd.Stderr = &so, &se
		err := cmd.Run()
		if err != nil {
			// The child died before finishing (a Go fatal error or a race-detector
			// halt inside the code under test would do that). This is not a
			// determinism verdict: let the workers find and attribute it; if they
			// find nothing, the death is unexplained and the check exits 2 below.
			selftestDied = fmt.Sprintf("GOMAXPROCS=%s: %v: %s", gmp, err, tail(se.String(), 600))
			continue
		}
		hasFailure := func(out string) bool {
			for _, line := range strings.Split(strings.TrimSpace(out), "\n") {
				if f := strings.Fields(line); len(f) >= 4 && f[3] != "ok" {
					return true
				}
			}
			return false
		}
		if ref == "" {
			ref = so.String()
		} else if so.String() != ref && (hasFailure(ref) || hasFailure(so.String())) {
			// Runs of this sample VIOLATE invariants, and differently from process
			// to process: the code under test has hidden state whose effect depends
			// on the process (e.g. a per-P sync.Pool). That is for the workers to
			// report as a violation, not a determinism verdict on the harness.
			selftestDied = fmt.Sprintf("GOMAXPROCS=%s: the sample contains invariant violations that differ between processes", gmp)
		} else if so.String() != ref {
			return nil, fatal2("determinism self-test: scenario %s differs between processes (GOMAXPROCS=%s)\n--- ref\n%s--- got\n%s", l.scenario, gmp, tail(ref, 1500), tail(so.String(), 1500))
		}
	}
	if selftestDied == "" {
		lr.determ = fmt.Sprintf("%d run indices x 3 fresh processes (GOMAXPROCS 1,4,16): identical plan hashes and event-log fingerprints", nDet)
	} else {
		lr.determ = "self-test child died before completing (attributed by the workers): " + selftestDied
	}

	// --- workers
	runs := int64(info.QuickRuns)
	seconds := 0
	if tier == "thorough" {
		runs = 0
		seconds = info.ThoroughSeconds
		if v := os.Getenv("VERIF_THOROUGH_SECONDS"); v != "" {
			fmt.Sscan(v, &seconds)
		}
	} else {
		// the quick tier is a fixed list of run indices, cut short after a time box
		// (the clock can only truncate the list, never change a run): code under
		// test that is legitimately slower than the unchanged library must not
		// turn the check into a watchdog case
		seconds = 240
		if v := os.Getenv("VERIF_QUICK_RUNS"); v != "" {
			fmt.Sscan(v, &runs)
		}
		if v := os.Getenv("VERIF_QUICK_SECONDS"); v != "" {
			fmt.Sscan(v, &seconds)
		}
	}
	shards := workers
	if info.ProcsPerWorker > 1 {
		shards = workers * info.ProcsPerWorker
		seconds = (seconds + info.ProcsPerWorker - 1) / info.ProcsPerWorker
	}
	results := make([]procResult, shards)
	var wgp sync.WaitGroup
	overall := time.Duration(seconds+900) * time.Second
	sem := make(chan struct{}, workers)
	for i := 0; i < shards; i++ {
		cmd := exec.Command(l.binary, "worker", "-scenario", l.scenario, "-tier", tier, "-seed", fmt.Sprint(batch),
			"-worker", fmt.Sprint(i), "-of", fmt.Sprint(shards), "-runs", fmt.Sprint(runs), "-seconds", fmt.Sprint(seconds), "-dir", dir)
		cmd.Env = childEnv(info, dir, "GOMAXPROCS=2")
		wgp.Add(1)
		go func(i int, cmd *exec.Cmd) {
			defer wgp.Done()
			sem <- struct{}{}
			defer func() { <-sem }()
			results[i] = runProc(cmd, filepath.Join(dir, fmt.Sprintf("status-%d", i)), overall)
		}(i, cmd)
	}
	wgp.Wait()
	lr.procs = shards

	deathSeen := map[string]bool{}
	for i, pr := range results {
		stt := pr.status
		if pr.kind == "start" {
			return nil, fatal2("start worker: %s", pr.output)
		}
		if pr.kind == "timeout" {
			return nil, fatal2("watchdog: worker %d of %s exceeded %v (run %d step %d incall=%d)", i, l.scenario, overall, stt.Idx, stt.Step, stt.InCall)
		}
		if pr.kind == "" && pr.exit == 0 && stt.Done == 1 {
			b, err := os.ReadFile(filepath.Join(dir, fmt.Sprintf("result-%d.json", i)))
			if err != nil {
				return nil, fatal2("worker %d result: %v", i, err)
			}
			wr := &WorkerResult{}
			if err := json.Unmarshal(b, wr); err != nil {
				return nil, fatal2("worker %d result: %v", i, err)
			}
			lr.results = append(lr.results, wr)
			hb, _ := os.ReadFile(filepath.Join(dir, fmt.Sprintf("hashes-%d.bin", i)))
			for j := 0; j+8 <= len(hb); j += 8 {
				lr.hashes[binary.LittleEndian.Uint64(hb[j:])] = struct{}{}
			}
			for _, f := range wr.Failures {
				v := violation{Scenario: l.scenario, Build: info.Build, Binary: l.binary, Seed: f.Seed, Fail: f.Fail, Plan: f.Plan, Min: true, Tried: f.ShrinkTried}
				// Confirm in a fresh process now; if the plan alone passes there, the
				// failure depends on what EARLIER runs of this worker left behind:
				// find the shortest suffix of the worker's run history that reproduces it.
				o, died, _, _, _, _ := execChild(l, dir, f.Plan, 600*time.Second)
				if !died && (o.Fail == nil || o.Fail.Invariant != f.Fail.Invariant) {
					var hist []uint64
					for x := uint64(i); x <= f.RunIndex; x += uint64(shards) {
						hist = append(hist, x)
					}
					var found []uint64
					var ff *engine.Failure
					var fp json.RawMessage
					for _, L := range []int{2, 3, 5, 9, 17, 33, 129, 1025, len(hist)} {
						if L > len(hist) {
							L = len(hist)
						}
						cand := hist[len(hist)-L:]
						g, at, pl, ok := runHistory(l, dir, tier, batch, cand)
						if ok && g != nil && at == f.RunIndex && g.Invariant == f.OrigFail.Invariant {
							found, ff, fp = cand, g, pl
							break
						}
						if L == len(hist) {
							break
						}
					}
					if found == nil {
						// Not a verdict by itself. Do not abort the batch: another run, or
						// another leg, may decide the same defect replayably (sync.Pool, for
						// one, drops a quarter of what it is given at random in a -race
						// build: a violation that lives in a pooled buffer is real and yet
						// need not repeat). If nothing is confirmed the check ends as exit 2.
						lr.unreproduced = append(lr.unreproduced, fmt.Sprintf("worker %d run %d seed %d: %s — reproduces neither as a plan in a fresh process nor by re-running the worker's run history", i, f.RunIndex, f.Seed, f.Fail))
						continue
					}
					v.Fail, v.Plan, v.Min = ff, fp, false
					v.History = &engine.History{Tier: tier, Indices: found, Note: "the plan of the last run passes in a fresh process; the violation needs the state left behind by the earlier runs listed here (same process, in this order)"}
				}
				lr.violations = append(lr.violations, v)
			}
			continue
		}
		if pr.kind == "" && pr.exit == 3 {
			return nil, fatal2("worker %d of %s reported a harness error:\n%s", i, l.scenario, tail(pr.output, 3000))
		}
		// The worker PROCESS died (by itself or under a watchdog). Attribute it
		// through the status page.
		stderr := pr.output
		if b, err := os.ReadFile(filepath.Join(dir, fmt.Sprintf("race.%d", pr.pid))); err == nil {
			stderr += string(b) // this process's own race-detector log
		}
		kind := deathKind(pr)
		if stt.Minimising == 1 {
			// The worker had already found an ordinary violation and died while
			// trying shrink candidates in-process. Redo the minimisation with
			// child-process executions.
			plan := info.Sc.Generate(stt.Seed, tierFor(tier, stt.Idx))
			pj, _ := json.Marshal(plan)
			o, died, _, _, _, _ := execChild(l, dir, pj, 600*time.Second)
			if died || o.Fail == nil {
				return nil, fatal2("worker %d of %s died while minimising run %d, and the original violation did not reproduce in a fresh process", i, l.scenario, stt.Idx)
			}
			execFn := func(pl engine.Plan) engine.Outcome {
				b, _ := json.Marshal(pl)
				o, d, _, _, _, _ := execChild(l, dir, b, 600*time.Second)
				if d {
					return engine.Outcome{}
				}
				return o
			}
			minPlan, minFail, tried := engine.Minimise(info.Sc, plan, o.Fail, execFn, 40*time.Second)
			mp, _ := json.Marshal(minPlan)
			lr.violations = append(lr.violations, violation{Scenario: l.scenario, Build: info.Build, Binary: l.binary, Seed: stt.Seed, Fail: minFail, Plan: mp, Min: true, Tried: tried})
			continue
		}
		want := deathFailure(info, kind, pr.exit, stderr, stt)
		if want != nil && deathSeen[want.Invariant] {
			lr.extraDeaths++ // same invariant already confirmed and minimised once in this batch
			continue
		}
		if want == nil {
			return nil, fatal2("worker %d of %s died (%s, exit %d) at run %d step %d incall=%d and the death is not attributable to the code under test:\n%s", i, l.scenario, kind, pr.exit, stt.Idx, stt.Step, stt.InCall, tail(stderr, 4000))
		}
		plan := info.Sc.Generate(stt.Seed, tierFor(tier, stt.Idx))
		pj, _ := json.Marshal(plan)
		// confirm in a fresh child
		_, died, k2, ec2, se2, st2 := execChild(l, dir, pj, 600*time.Second)
		var got *engine.Failure
		if died {
			got = deathFailure(info, k2, ec2, se2, st2)
		}
		if pt, ok := info.Sc.(engine.Perturber); ok && (got == nil || got.Invariant != want.Invariant) {
			// layout-dependent oracle: try other layout variants of the same plan
			for k := 0; k < 24 && (got == nil || got.Invariant != want.Invariant); k++ {
				cand := pt.Perturb(plan, k)
				cj, _ := json.Marshal(cand)
				_, d3, k3, ec3, se3, st3 := execChild(l, dir, cj, 600*time.Second)
				if d3 {
					if g := deathFailure(info, k3, ec3, se3, st3); g != nil && g.Invariant == want.Invariant {
						got, plan, pj, died, k2, ec2 = g, cand, cj, d3, k3, ec3
					}
				}
			}
			if got == nil || got.Invariant != want.Invariant {
				// It may need what EARLIER runs of the worker left behind (a cache of
				// the code under test): re-run suffixes of the worker's run history
				// in one fresh process.
				var hist []uint64
				for x := uint64(i); x <= stt.Idx; x += uint64(shards) {
					hist = append(hist, x)
				}
				histFound := false
				for _, L := range []int{2, 3, 5, 9, 17, 33, 129, len(hist)} {
					if L > len(hist) {
						L = len(hist)
					}
					cand := hist[len(hist)-L:]
					g, at, pl, ok := runHistory(l, dir, tier, batch, cand)
					if ok && g != nil && at == stt.Idx && g.Invariant == want.Invariant {
						deathSeen[want.Invariant] = true
						lr.violations = append(lr.violations, violation{Scenario: l.scenario, Build: info.Build, Binary: l.binary, Seed: stt.Seed, Fail: g, Plan: pl, Death: true,
							History: &engine.History{Tier: tier, Indices: cand, Note: "the plan of the last run does not fail in a fresh process; the report needs the state left behind by the earlier runs listed here (same process, in this order)"}})
						histFound = true
						break
					}
					if L == len(hist) {
						break
					}
				}
				if histFound {
					continue
				}
				// A genuine report (the worker's own log is the evidence) that no
				// fresh process reproduces. Do not abort the batch: other legs may
				// decide the same defect deterministically.
				lr.unreproduced = append(lr.unreproduced, fmt.Sprintf("worker %d run %d seed %d: %s", i, stt.Idx, stt.Seed, want.Detail))
				deathSeen[want.Invariant] = true
				continue
			}
		}
		if got == nil || got.Invariant != want.Invariant {
			return nil, fatal2("worker %d of %s died at run %d step %d (%s) but the death did not reproduce in a fresh process (died=%v kind=%s exit=%d)\n%s", i, l.scenario, stt.Idx, stt.Step, want.Invariant, died, k2, ec2, tail(stderr, 3000))
		}
		execFn := func(pl engine.Plan) engine.Outcome {
			b, _ := json.Marshal(pl)
			o, d, k, ec, se, s := execChild(l, dir, b, 600*time.Second)
			if d {
				if f := deathFailure(info, k, ec, se, s); f != nil {
					return engine.Outcome{Fail: f}
				}
			}
			return o
		}
		box := 40 * time.Second
		if kind == "hang" {
			box = 0 // every candidate would cost a full hang timeout
		}
		minPlan, minFail, tried := engine.Minimise(info.Sc, plan, got, execFn, box)
		mp, _ := json.Marshal(minPlan)
		deathSeen[want.Invariant] = true
		lr.violations = append(lr.violations, violation{Scenario: l.scenario, Build: info.Build, Binary: l.binary, Seed: stt.Seed, Fail: minFail, Plan: mp, Death: true, Min: true, Tried: tried})
	}
	if selftestDied != "" && len(lr.violations) == 0 {
		return nil, fatal2("a determinism self-test child of %s died (%s) but no worker reproduced a violation", l.scenario, selftestDied)
	}
	lr.wall = time.Since(start).Seconds()
	return lr, 0
}

// runHistory executes the given run indices in order in ONE fresh worker
// process and returns the failure it reports (nil if none) and the index at
// which it occurred.
func runHistory(l leg, dir string, tier string, batch uint64, indices []uint64) (*engine.Failure, uint64, json.RawMessage, bool) {
	hd := filepath.Join(dir, "history")
	_ = os.RemoveAll(hd)
	_ = os.MkdirAll(hd, 0o755)
	strs := make([]string, len(indices))
	for i, v := range indices {
		strs[i] = fmt.Sprint(v)
	}
	cmd := exec.Command(l.binary, "worker", "-scenario", l.scenario, "-tier", tier, "-seed", fmt.Sprint(batch),
		"-worker", "0", "-of", "1", "-dir", hd, "-nomin", "-indices", strings.Join(strs, ","))
	cmd.Env = childEnv(l.info, hd, "GOMAXPROCS=2")
	r := runProc(cmd, filepath.Join(hd, "status-0"), 3600*time.Second)
	if r.kind != "" || r.exit != 0 {
		// the process died: a death during an in-flight library call (a race
		// report, an abort) is an outcome of the history as well
		stderr := r.output
		if b, err := os.ReadFile(filepath.Join(hd, fmt.Sprintf("race.%d", r.pid))); err == nil {
			stderr += string(b)
		}
		if df := deathFailure(l.info, deathKind(r), r.exit, stderr, r.status); df != nil {
			pj, _ := json.Marshal(l.info.Sc.Generate(r.status.Seed, tierFor(tier, r.status.Idx)))
			return df, r.status.Idx, pj, true
		}
		return nil, 0, nil, false
	}
	b, err := os.ReadFile(filepath.Join(hd, "result-0.json"))
	if err != nil {
		return nil, 0, nil, false
	}
	var wr WorkerResult
	if json.Unmarshal(b, &wr) != nil || len(wr.Failures) == 0 {
		return nil, 0, nil, true
	}
	f := wr.Failures[0]
	return f.OrigFail, f.RunIndex, f.OrigPlan, true
}

func tail(s string, n int) string {
	if len(s) > n {
		return "…" + s[len(s)-n:]
	}
	return s
}

func firstLines(s string, n int) string {
	lines := strings.Split(strings.TrimSpace(s), "\n")
	if len(lines) > n {
		lines = lines[:n]
	}
	return strings.Join(lines, " | ")
}

// knownFinding is one line of /verif/known_findings.txt:
//
//	finding: property=C07 invariant=C07.normal_return match=<substring of the violation detail> :: <description>
//	fixed: property=C07 <commit> <what failed>          (suppresses nothing)
type knownFinding struct {
	Property, Invariant, Match, Desc string
}

func loadKnown(path string) []knownFinding {
	b, err := os.ReadFile(path)
	if err != nil {
		return nil
	}
	var out []knownFinding
	for _, line := range strings.Split(string(b), "\n") {
		line = strings.TrimSpace(line)
		if !strings.HasPrefix(line, "finding:") {
			continue
		}
		body := strings.TrimSpace(strings.TrimPrefix(line, "finding:"))
		desc := ""
		if i := strings.Index(body, "::"); i >= 0 {
			desc = strings.TrimSpace(body[i+2:])
			body = strings.TrimSpace(body[:i])
		}
		kf := knownFinding{Desc: desc}
		if i := strings.Index(body, "match="); i >= 0 {
			kf.Match = strings.TrimSpace(body[i+len("match="):])
			body = body[:i]
		}
		for _, f := range strings.Fields(body) {
			switch {
			case strings.HasPrefix(f, "property="):
				kf.Property = f[len("property="):]
			case strings.HasPrefix(f, "invariant="):
				kf.Invariant = f[len("invariant="):]
			}
		}
		if kf.Property != "" && kf.Invariant != "" && kf.Match != "" {
			out = append(out, kf)
		}
	}
	return out
}

func cmdSupervise(args []string) int {
	fs := flag.NewFlagSet("supervise", flag.ExitOnError)
	prop := fs.String("prop", "", "")
	tier := fs.String("tier", "quick", "")
	batch := fs.Uint64("seed", 1, "")
	workers := fs.Int("workers", 4, "")
	legsFlag := fs.String("legs", "", "scenario=binary[,scenario=binary…]")
	evidence := fs.String("evidence", "", "")
	replays := fs.String("replays", "", "")
	known := fs.String("known", "", "")
	scratch := fs.String("scratch", "", "")
	level := fs.String("level", "exploration", "")
	fs.Parse(args)
	start := time.Now()

	var legs []leg
	for _, part := range strings.Split(*legsFlag, ",") {
		kv := strings.SplitN(part, "=", 2)
		if len(kv) != 2 {
			return fatal2("bad -legs")
		}
		info := scen.Get(kv[0])
		if info == nil {
			return fatal2("unknown scenario %q", kv[0])
		}
		if info.Sc.Property() != *prop {
			return fatal2("scenario %s serves %s, not %s", kv[0], info.Sc.Property(), *prop)
		}
		legs = append(legs, leg{scenario: kv[0], binary: kv[1], info: info})
	}
	var lrs []*legResult
	for _, l := range legs {
		lr, rc := runLeg(l, *tier, *batch, *workers, *scratch)
		if rc != 0 {
			return rc
		}
		lrs = append(lrs, lr)
	}

	// ---- violations: known findings, replay files, fresh-process confirmation
	kfs := loadKnown(*known)
	exit := 0
	nviol := 0
	seenInv := map[string]bool{}
	knownPrinted := map[string]bool{}
	var unconfirmed []string
	for _, lr := range lrs {
		sort.SliceStable(lr.violations, func(i, j int) bool { return lr.violations[i].Seed < lr.violations[j].Seed })
		for _, v := range lr.violations {
			// confirm in a fresh process: must fail the same way
			var o engine.Outcome
			var died bool
			var dk, se string
			var ec int
			var st engine.StatusSnapshot
			reproduced := false
			if v.History != nil {
				g, at, _, ok := runHistory(lr.leg, filepath.Join(*scratch, lr.leg.scenario), v.History.Tier, *batch, v.History.Indices)
				reproduced = ok && g != nil && g.Invariant == v.Fail.Invariant && at == v.History.Indices[len(v.History.Indices)-1]
				o.Fail = g
			} else {
				o, died, dk, ec, se, st = execChild(lr.leg, filepath.Join(*scratch, lr.leg.scenario), v.Plan, 600*time.Second)
			}
			if v.History != nil {
				// decided above
			} else if died {
				df := deathFailure(lr.leg.info, dk, ec, se, st)
				reproduced = df != nil && df.Invariant == v.Fail.Invariant
			} else if v.Death {
				// minimisation of a death may end in a plan that fails the same
				// invariant without killing the process (e.g. a recoverable panic
				// instead of an out-of-memory abort)
				reproduced = o.Fail != nil && o.Fail.Invariant == v.Fail.Invariant
				if reproduced {
					v.Fail = o.Fail
				}
			} else {
				// the same named invariant must fail; the step is taken from the fresh
				// process (a worker that had already run other plans may have met the
				// violation at another step of the same plan) so that the replay file
				// records exactly what a fresh process does
				reproduced = o.Fail != nil && o.Fail.Invariant == v.Fail.Invariant
				if reproduced {
					v.Fail = o.Fail
				}
			}
			v.Death = died
			if !reproduced {
				// Not a verdict by itself (no replay, no VIOLATION line). If another
				// violation of this batch IS confirmed the check still exits 1 with
				// that one; if none is, this is harness trouble (exit 2), see below.
				unconfirmed = append(unconfirmed, fmt.Sprintf("violation %s (seed %d) did not reproduce in a fresh process: got %v died=%v", v.Fail, v.Seed, o.Fail, died))
				continue
			}
			isKnown := false
			for _, k := range kfs {
				if k.Property == *prop && k.Invariant == v.Fail.Invariant && strings.Contains(v.Fail.Detail, k.Match) {
					isKnown = true
					key := k.Invariant + "|" + k.Match
					if !knownPrinted[key] {
						knownPrinted[key] = true
						fmt.Printf("KNOWN-FINDING: property=%s %s: %s\n", *prop, k.Invariant, k.Desc)
					}
				}
			}
			if isKnown {
				continue
			}
			nviol++
			if seenInv[v.Fail.Invariant] {
				continue // one replay per violated invariant per batch
			}
			seenInv[v.Fail.Invariant] = true
			rp := engine.Replay{Property: *prop, Scenario: v.Scenario, Build: v.Build, Seed: v.Seed, BatchSeed: *batch,
				Invariant: v.Fail.Invariant, Step: v.Fail.Step, Detail: v.Fail.Detail, Death: v.Death, Minimised: v.Min, ShrinkTried: v.Tried, Plan: v.Plan, History: v.History}
			_ = os.MkdirAll(*replays, 0o755)
			path := filepath.Join(*replays, fmt.Sprintf("%s-%s-%d.json", *prop, strings.ReplaceAll(v.Fail.Invariant, ".", "_"), v.Seed))
			b, _ := json.MarshalIndent(rp, "", " ")
			if err := os.WriteFile(path, b, 0o644); err != nil {
				return fatal2("write replay: %v", err)
			}
			fmt.Printf("violation: %s\n", v.Fail)
			fmt.Printf("VIOLATION property=%s replay=%s\n", *prop, path)
			exit = 1
		}
	}

	for _, u := range unconfirmed {
		fmt.Printf("UNREPRODUCED-REPORT: %s\n", u)
	}
	if len(unconfirmed) > 0 && exit == 0 {
		return fatal2("%d violation(s) reported by workers did not reproduce in a fresh process and no other violation was confirmed", len(unconfirmed))
	}
	// ---- race reports of workers that no fresh process reproduced
	for _, lr := range lrs {
		for _, u := range lr.unreproduced {
			fmt.Printf("UNREPRODUCED-REPORT (%s): %s\n", lr.leg.scenario, u)
		}
		if len(lr.unreproduced) > 0 && exit == 0 {
			// nothing else failed: the report stands on the worker's log alone and
			// cannot be replayed — that is harness trouble, not a verdict
			return fatal2("%d report(s) by %s workers could not be reproduced in a fresh process (for race reports: under 24 layout variants and as a run history) and no other check failed", len(lr.unreproduced), lr.leg.scenario)
		}
	}
	// ---- evidence
	if *evidence != "" {
		if rc := writeEvidence(*evidence, *prop, *tier, *level, *batch, *workers, lrs, nviol, time.Since(start).Seconds()); rc != 0 {
			return rc
		}
	}
	if exit == 0 {
		var runs int64
		for _, lr := range lrs {
			for _, r := range lr.results {
				runs += r.Runs
			}
		}
		fmt.Printf("OK property=%s tier=%s seed=%d runs=%d wall=%.1fs\n", *prop, *tier, *batch, runs, time.Since(start).Seconds())
	}
	return exit
}

func writeEvidence(path, prop, tier, level string, batch uint64, workers int, lrs []*legResult, nviol int, wall float64) int {
	var evaluations, nontrivial, libcalls int64
	var events uint64
	counters := map[string]int64{}
	states, inter := 0, 0
	var statesOver int64
	union := map[uint64]struct{}{}
	var samples []interface{}
	var rules, determ, real, stub []string
	capHit := false
	legsOut := []map[string]interface{}{}
	for _, lr := range lrs {
		var lruns int64
		for _, r := range lr.results {
			evaluations += r.Runs
			lruns += r.Runs
			nontrivial += r.NonTrivial
			libcalls += r.LibCalls
			events += r.Events
			states += r.States
			statesOver += r.StatesOver
			inter += r.Interleaving
			capHit = capHit || r.HashCapHit
			for k, v := range r.Counters {
				counters[k] += v
			}
			for _, s := range r.Samples {
				if len(samples) < 3 {
					var v interface{}
					_ = json.Unmarshal(s, &v)
					samples = append(samples, map[string]interface{}{"scenario": lr.leg.scenario, "plan": v})
				}
			}
		}
		for h := range lr.hashes {
			union[h] = struct{}{}
		}
		rules = append(rules, lr.leg.scenario+": "+lr.leg.info.Rule)
		determ = append(determ, lr.leg.scenario+": "+lr.determ)
		real = append(real, lr.leg.info.Real...)
		stub = append(stub, lr.leg.info.Stub...)
		legsOut = append(legsOut, map[string]interface{}{"scenario": lr.leg.scenario, "build": lr.leg.info.Build, "runs": lruns, "wall_s": lr.wall, "worker_processes": lr.procs})
	}
	fc, ff, probes, ops := map[string]int64{}, map[string]int64{}, map[string]int64{}, map[string]int64{}
	for k, v := range counters {
		switch {
		case strings.HasPrefix(k, "fault.configured."):
			fc[strings.TrimPrefix(k, "fault.configured.")] = v
		case strings.HasPrefix(k, "fault.fired."):
			ff[strings.TrimPrefix(k, "fault.fired.")] = v
		case strings.HasPrefix(k, "probe."):
			probes[strings.TrimPrefix(k, "probe.")] = v
		default:
			ops[k] = v
		}
	}
	var zeroProbes []string
	for k, v := range probes {
		if v == 0 {
			zeroProbes = append(zeroProbes, k)
		}
	}
	sort.Strings(zeroProbes)
	rph := 0.0
	if wall > 0 {
		rph = float64(evaluations) / wall * 3600
	}
	cov := map[string]interface{}{
		"evaluations":            evaluations,
		"distinct_nontrivial":    len(union),
		"nontrivial_runs":        nontrivial,
		"distinct_hash_cap_hit":  capHit,
		"rule":                   strings.Join(rules, " || "),
		"samples":                samples,
		"exhaustive":             false,
		"seeds":                  fmt.Sprintf("batch seed %d; run seed = H(batch, scenario, run index); run indices 0..%d split over %d worker processes", batch, evaluations-1, workers),
		"runs_per_hour":          int64(rph),
		"events":                 events,
		"library_calls":          libcalls,
		"simulated_time":         fmt.Sprintf("%d events (logical time = global event sequence number; the code under test reads no clock, so wall-clock simulation is not applicable)", events),
		"faults_configured":      fc,
		"faults_fired":           ff,
		"probes":                 probes,
		"probes_at_zero":         zeroProbes,
		"op_counters":            ops,
		"distinct_states":        states,
		"distinct_states_note":   fmt.Sprintf("hashes of the reference-model state after each event, counted with a set per worker and summed (cap 2^20 per worker; %d insertions refused)", statesOver),
		"distinct_interleavings": inter,
		"real_components":        real,
		"stub_components":        stub,
		"determinism_selftest":   determ,
		"legs":                   legsOut,
	}
	if v, ok := counters["fault_points"]; ok {
		cov["fault_points_enumerated"] = v
		cov["fault_points_note"] = "number of (fault position x variant) cases executed; within a fault family every position of a stream of at most 320 bytes is enumerated, longer streams are boundary-biased-sampled (probes *_sweep_enumerated count the enumerated sweeps)"
	}
	var unrep []string
	extra := 0
	for _, lr := range lrs {
		unrep = append(unrep, lr.unreproduced...)
		extra += lr.extraDeaths
	}
	cov["unreproduced_reports"] = unrep
	cov["further_deaths_same_invariant"] = extra
	ev := map[string]interface{}{
		"property_id": prop,
		"tier":        tier,
		"seed":        batch,
		"level":       level,
		"coverage":    cov,
		"assumptions": []string{
			"the Go toolchain, runtime and standard library (io.ReadFull, io.SectionReader, encoding/binary) are correct",
			"github.com/golang/protobuf v1.4.2 and google.golang.org/protobuf v1.23.0 are correct (real libraries, trusted)",
			"a clean batch is evidence, not proof: schedules, faults and histories are sampled by seeded search, not enumerated (except where coverage says a fault family was enumerated)",
		},
		"wall_s":     wall,
		"violations": nviol,
	}
	b, _ := json.MarshalIndent(ev, "", " ")
	if err := os.MkdirAll(filepath.Dir(path), 0o755); err != nil {
		return fatal2("evidence dir: %v", err)
	}
	if err := os.WriteFile(path, b, 0o644); err != nil {
		return fatal2("write evidence: %v", err)
	}
	return 0
}
