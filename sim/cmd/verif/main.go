// Command verif is the deterministic-simulation harness for openacid/low.
//
//	verif supervise …   run a batch (determinism self-test, workers, evidence)
//	verif worker …      one worker process (spawned by supervise)
//	verif exec …        execute one plan file in this process
//	verif replay …      re-execute a replay file in a fresh child process
//	verif fingerprints  print event-log fingerprints (determinism self-test)
//	verif gen …         print the plan a seed generates
package main

import (
	"encoding/json"
	"flag"
	"fmt"
	"os"
	"time"

	"verifsim/engine"
	"verifsim/scen"
)

func main() {
	if len(os.Args) < 2 {
		fmt.Fprintln(os.Stderr, "usage: verif supervise|worker|exec|replay|fingerprints|gen …")
		os.Exit(2)
	}
	var rc int
	switch os.Args[1] {
	case "supervise":
		rc = cmdSupervise(os.Args[2:])
	case "worker":
		rc = cmdWorker(os.Args[2:])
	case "exec":
		rc = cmdExec(os.Args[2:])
	case "replay":
		rc = cmdReplay(os.Args[2:])
	case "fingerprints":
		rc = cmdFingerprints(os.Args[2:])
	case "selftest":
		rc = cmdSelftest(os.Args[2:])
	case "gen":
		rc = cmdGen(os.Args[2:])
	case "scenarios":
		for _, n := range scen.Names() {
			i := scen.Get(n)
			fmt.Printf("%s %s %s\n", n, i.Sc.Property(), i.Build)
		}
	default:
		fmt.Fprintln(os.Stderr, "unknown subcommand", os.Args[1])
		rc = 2
	}
	os.Exit(rc)
}

func cmdGen(args []string) int {
	fs := flag.NewFlagSet("gen", flag.ExitOnError)
	scName := fs.String("scenario", "", "")
	tier := fs.String("tier", "quick", "")
	batch := fs.Uint64("seed", 1, "")
	idx := fs.Uint64("index", 0, "")
	raw := fs.Bool("rawseed", false, "treat -seed as the run seed itself")
	fs.Parse(args)
	info := scen.Get(*scName)
	if info == nil {
		return 2
	}
	seed := RunSeed(*batch, *scName, *idx)
	if *raw {
		seed = *batch
	}
	t := *tier
	if !*raw {
		t = tierFor(t, *idx)
	}
	b, _ := json.MarshalIndent(info.Sc.Generate(seed, t), "", " ")
	fmt.Println(string(b))
	return 0
}

// cmdReplay re-executes a replay file in a fresh child process of the given
// binary. Exit 1 + VIOLATION line if the recorded invariant fails again at the
// recorded step; exit 0 if the plan now passes.
func cmdReplay(args []string) int {
	fs := flag.NewFlagSet("replay", flag.ExitOnError)
	file := fs.String("file", "", "")
	binary := fs.String("binary", os.Args[0], "")
	scratch := fs.String("scratch", os.TempDir(), "")
	trace := fs.Bool("trace", false, "")
	fs.Parse(args)
	b, err := os.ReadFile(*file)
	if err != nil {
		return fatal2("%v", err)
	}
	var rp engine.Replay
	if err := json.Unmarshal(b, &rp); err != nil {
		return fatal2("bad replay file: %v", err)
	}
	info := scen.Get(rp.Scenario)
	if info == nil {
		return fatal2("unknown scenario %q", rp.Scenario)
	}
	l := leg{scenario: rp.Scenario, binary: *binary, info: info}
	if *trace {
		pf := *scratch + "/trace-plan.json"
		_ = os.WriteFile(pf, rp.Plan, 0o644)
		return cmdExec([]string{"-scenario", rp.Scenario, "-plan", pf, "-trace"})
	}
	if rp.History != nil {
		g, at, _, ok := runHistory(l, *scratch, rp.History.Tier, rp.BatchSeed, rp.History.Indices)
		if !ok {
			return fatal2("history replay: the worker process failed")
		}
		if g == nil {
			fmt.Printf("NOT-REPRODUCED property=%s invariant=%s: the run history now passes every invariant\n", rp.Property, rp.Invariant)
			return 0
		}
		fmt.Printf("violation: %s (at run index %d of the replayed history)\n", g, at)
		if g.Invariant == rp.Invariant && g.Step == rp.Step && at == rp.History.Indices[len(rp.History.Indices)-1] {
			fmt.Printf("REPRODUCED exactly (same invariant, same step, same run)\n")
		} else {
			fmt.Printf("REPRODUCED-DIFFERENTLY recorded=%s@%d\n", rp.Invariant, rp.Step)
		}
		fmt.Printf("VIOLATION property=%s replay=%s\n", rp.Property, *file)
		return 1
	}
	o, died, dk, ec, se, st := execChild(l, *scratch, rp.Plan, 600*time.Second)
	if o.Harness != nil {
		return fatal2("replay: %s", o.Harness.Msg)
	}
	var got *engine.Failure
	if died {
		got = deathFailure(info, dk, ec, se, st)
		if got == nil {
			return fatal2("replay child died (exit %d) outside an attributable library call:\n%s", ec, tail(se, 3000))
		}
	} else {
		got = o.Fail
	}
	if got == nil {
		fmt.Printf("NOT-REPRODUCED property=%s invariant=%s: the plan now passes every invariant\n", rp.Property, rp.Invariant)
		return 0
	}
	fmt.Printf("violation: %s\n", got)
	if got.Invariant == rp.Invariant && got.Step == rp.Step {
		fmt.Printf("REPRODUCED exactly (same invariant, same step)\n")
	} else {
		fmt.Printf("REPRODUCED-DIFFERENTLY recorded=%s@%d\n", rp.Invariant, rp.Step)
	}
	fmt.Printf("VIOLATION property=%s replay=%s\n", rp.Property, *file)
	return 1
}
