package main

import (
	"encoding/binary"
	"encoding/json"
	"flag"
	"fmt"
	"os"
	"path/filepath"
	"runtime"
	"runtime/pprof"
	"sort"
	"strings"
	"syscall"
	"time"

	"verifsim/engine"
	"verifsim/scen"
)

// RunSeed derives the seed of run number idx of a batch. The set of runs of the
// quick tier is therefore independent of the number of workers.
func RunSeed(batch uint64, scenario string, idx uint64) uint64 {
	return engine.H(batch, engine.HashBytes(0, []byte(scenario)), idx)
}

// coldIndices: run indices below this always generate "cold-style" plans (the
// tier string gets the suffix "/cold"). Every worker process starts with one of
// them (a batch is split into at most coldIndices shards), so the first run of
// every cold process is one that exercises first-use behaviour. It is a pure
// function of the run index, hence independent of the number of workers.
const coldIndices = 128

func tierFor(tier string, idx uint64) string {
	if idx < coldIndices {
		return tier + "/cold"
	}
	// rare and costly plan classes are PLACED, not left to chance, so that every
	// batch of a thousand runs has them whatever its seed (a scenario that
	// has no such class ignores the suffix)
	switch idx % 1024 {
	case 200:
		return tier + "/rare1"
	case 300:
		return tier + "/rare2"
	case 400:
		return tier + "/rare3"
	}
	return tier
}

// WorkerFailure is a violation found (and minimised) inside a worker.
type WorkerFailure struct {
	RunIndex    uint64          `json:"run_index"`
	Seed        uint64          `json:"seed"`
	Fail        *engine.Failure `json:"fail"`
	OrigFail    *engine.Failure `json:"orig_fail"`
	Plan        json.RawMessage `json:"plan"`
	OrigPlan    json.RawMessage `json:"orig_plan"`
	ShrinkTried int             `json:"shrink_tried"`
}

type WorkerResult struct {
	Worker       int               `json:"worker"`
	Scenario     string            `json:"scenario"`
	Runs         int64             `json:"runs"`
	NonTrivial   int64             `json:"nontrivial"`
	Events       uint64            `json:"events"`
	LibCalls     int64             `json:"lib_calls"`
	Counters     map[string]int64  `json:"counters"`
	States       int               `json:"states"`
	StatesOver   int64             `json:"states_over_cap"`
	Interleaving int               `json:"interleavings"`
	Samples      []json.RawMessage `json:"samples"`
	Failures     []WorkerFailure   `json:"failures"`
	FPXor        uint64            `json:"fingerprint_xor"`
	FirstFPs     []uint64          `json:"first_fingerprints"`
	WallS        float64           `json:"wall_s"`
	HashCapHit   bool              `json:"hash_cap_hit"`
	Harness      string            `json:"harness_error,omitempty"`
}

const planHashCap = 250000

// oneProcessor: a plain-build scenario runs its tasks strictly one at a time on
// channels, so one P is all it can use — and with one P the per-P structures of
// the runtime that code under test may lean on (sync.Pool's private slots, the
// order in which runnable goroutines are picked) behave the same in every
// execution, which a verdict that depends on them needs in order to replay.
// (Not for the -race flavour, whose hand-off blocks in raw system calls.)
func oneProcessor(info *scen.Info) {
	if info.Build == "plain" {
		runtime.GOMAXPROCS(1)
	}
}

func setAddressSpaceLimit(bytes uint64) {
	if bytes == 0 {
		return
	}
	lim := syscall.Rlimit{Cur: bytes, Max: bytes}
	if err := syscall.Setrlimit(syscall.RLIMIT_AS, &lim); err != nil {
		fmt.Fprintln(os.Stderr, "harness: setrlimit:", err)
		os.Exit(2)
	}
}

func cmdWorker(args []string) int {
	fs := flag.NewFlagSet("worker", flag.ExitOnError)
	scName := fs.String("scenario", "", "")
	tier := fs.String("tier", "quick", "")
	batch := fs.Uint64("seed", 1, "")
	worker := fs.Int("worker", 0, "")
	of := fs.Int("of", 1, "")
	runs := fs.Int64("runs", 0, "total runs in the batch (all workers); 0 = unbounded (time box)")
	seconds := fs.Int("seconds", 0, "time box; 0 = none")
	dir := fs.String("dir", ".", "")
	firstN := fs.Int("firstfps", 0, "record the fingerprints of the first N run indices this worker executes")
	indicesFlag := fs.String("indices", "", "run exactly these run indices, in this order, in this one process (history replay)")
	noMin := fs.Bool("nomin", false, "do not minimise a failing plan")
	fs.Parse(args)
	var explicit []uint64
	if *indicesFlag != "" {
		for _, f := range strings.Split(*indicesFlag, ",") {
			var v uint64
			if _, err := fmt.Sscan(f, &v); err != nil {
				fmt.Fprintln(os.Stderr, "harness: bad -indices")
				return 3
			}
			explicit = append(explicit, v)
		}
	}

	info := scen.Get(*scName)
	if info == nil {
		fmt.Fprintln(os.Stderr, "harness: unknown scenario", *scName)
		return 2
	}
	setAddressSpaceLimit(info.AddressSpaceLimit)
	oneProcessor(info)
	sc := info.Sc
	status, err := engine.OpenStatus(filepath.Join(*dir, fmt.Sprintf("status-%d", *worker)))
	if err != nil {
		fmt.Fprintln(os.Stderr, "harness: status page:", err)
		return 2
	}
	st := engine.NewStats()
	res := &WorkerResult{Worker: *worker, Scenario: *scName}
	hashes := make(map[uint64]struct{})
	start := time.Now()
	var deadline time.Time
	if *seconds > 0 {
		deadline = start.Add(time.Duration(*seconds) * time.Second)
	}
	writeResult := func() {
		res.Counters = st.C
		res.States = len(st.States)
		res.StatesOver = st.StatesOver
		res.Interleaving = len(st.Inter)
		res.WallS = time.Since(start).Seconds()
		b, _ := json.Marshal(res)
		_ = os.WriteFile(filepath.Join(*dir, fmt.Sprintf("result-%d.json", *worker)), b, 0o644)
		// plan hashes of non-trivial runs, sorted, binary
		hs := make([]uint64, 0, len(hashes))
		for h := range hashes {
			hs = append(hs, h)
		}
		sort.Slice(hs, func(i, j int) bool { return hs[i] < hs[j] })
		hb := make([]byte, 8*len(hs))
		for i, h := range hs {
			binary.LittleEndian.PutUint64(hb[8*i:], h)
		}
		_ = os.WriteFile(filepath.Join(*dir, fmt.Sprintf("hashes-%d.bin", *worker)), hb, 0o644)
		// interleaving + state hashes are reported as counts only
	}

	for pos, idx := 0, uint64(*worker); ; pos, idx = pos+1, idx+uint64(*of) {
		if explicit != nil {
			if pos >= len(explicit) {
				break
			}
			idx = explicit[pos]
		} else if *runs > 0 && idx >= uint64(*runs) {
			break
		}
		if !deadline.IsZero() && (res.Runs&15) == 0 && time.Now().After(deadline) {
			break
		}
		seed := RunSeed(*batch, *scName, idx)
		status.SetRun(idx, seed)
		plan := sc.Generate(seed, tierFor(*tier, idx))
		out, ctx := engine.RunInProcess(sc, plan, st, status, false)
		if out.Harness != nil {
			res.Harness = fmt.Sprintf("run %d seed %d: %s", idx, seed, out.Harness.Msg)
			writeResult()
			fmt.Fprintln(os.Stderr, "harness:", res.Harness)
			return 3
		}
		res.Runs++
		res.Events += ctx.Seq
		res.LibCalls += int64(ctx.LibCalls)
		res.FPXor ^= engine.HashU64(out.Fingerprint, idx)
		if len(res.FirstFPs) < *firstN {
			res.FirstFPs = append(res.FirstFPs, out.Fingerprint)
		}
		if info.NonTrivial(ctx) {
			res.NonTrivial++
			if len(hashes) < planHashCap {
				hashes[engine.PlanHash(plan)] = struct{}{}
			} else {
				res.HashCapHit = true
			}
		}
		if len(res.Samples) < 3 && (info.NonTrivial(ctx) || res.Runs > 50) {
			b, _ := json.Marshal(plan)
			if len(b) < 6000 {
				res.Samples = append(res.Samples, b)
			}
		}
		if out.Fail != nil {
			orig, _ := json.Marshal(plan)
			exec := func(p engine.Plan) engine.Outcome {
				o, _ := engine.RunInProcessUntil(sc, p, engine.NewStats(), status, false, time.Now().Add(3*time.Second))
				return o
			}
			box := 20 * time.Second
			if *noMin {
				box = 0
			}
			status.SetMinimising(true)
			minPlan, minFail, tried := engine.Minimise(sc, plan, out.Fail, exec, box)
			status.SetMinimising(false)
			mp, _ := json.Marshal(minPlan)
			res.Failures = append(res.Failures, WorkerFailure{RunIndex: idx, Seed: seed, Fail: minFail, OrigFail: out.Fail, Plan: mp, OrigPlan: orig, ShrinkTried: tried})
			break // first violation ends this worker's batch
		}
	}
	writeResult()
	status.SetDone()
	return 0
}

// cmdExec executes one plan file in this process and prints the outcome as
// JSON. Exit 0: all invariants held; 1: a violation; 2: harness error. A Go
// fatal error simply kills the process (the caller attributes it).
func cmdExec(args []string) int {
	fs := flag.NewFlagSet("exec", flag.ExitOnError)
	scName := fs.String("scenario", "", "")
	planFile := fs.String("plan", "", "")
	trace := fs.Bool("trace", false, "")
	statusPath := fs.String("status", "", "")
	fs.Parse(args)
	info := scen.Get(*scName)
	if info == nil {
		fmt.Fprintln(os.Stderr, "harness: unknown scenario", *scName)
		return 2
	}
	setAddressSpaceLimit(info.AddressSpaceLimit)
	oneProcessor(info)
	raw, err := os.ReadFile(*planFile)
	if err != nil {
		fmt.Fprintln(os.Stderr, "harness:", err)
		return 2
	}
	plan, err := info.Sc.Decode(raw)
	if err != nil {
		fmt.Fprintln(os.Stderr, "harness: bad plan:", err)
		return 2
	}
	var status *engine.StatusPage
	if *statusPath != "" {
		status, err = engine.OpenStatus(*statusPath)
		if err != nil {
			fmt.Fprintln(os.Stderr, "harness:", err)
			return 2
		}
		status.SetRun(0, 0)
	}
	out, ctx := engine.RunInProcess(info.Sc, plan, engine.NewStats(), status, *trace)
	if *trace && ctx != nil {
		for _, l := range ctx.Lines {
			fmt.Println(l)
		}
	}
	type execOut struct {
		Fail        *engine.Failure `json:"fail"`
		Fingerprint uint64          `json:"fingerprint"`
		Harness     string          `json:"harness,omitempty"`
	}
	eo := execOut{Fail: out.Fail, Fingerprint: out.Fingerprint}
	if out.Harness != nil {
		eo.Harness = out.Harness.Msg
	}
	b, _ := json.Marshal(eo)
	fmt.Println("EXEC-OUTCOME " + string(b))
	if status != nil {
		status.SetDone()
	}
	switch {
	case out.Harness != nil:
		return 3
	case out.Fail != nil:
		return 1
	}
	return 0
}

// cmdFingerprints prints the event-log fingerprints of run indices [from,to):
// used by the determinism self-test across processes and GOMAXPROCS values.
func cmdFingerprints(args []string) int {
	fs := flag.NewFlagSet("fingerprints", flag.ExitOnError)
	scName := fs.String("scenario", "", "")
	tier := fs.String("tier", "quick", "")
	batch := fs.Uint64("seed", 1, "")
	from := fs.Uint64("from", 0, "")
	to := fs.Uint64("to", 20, "")
	cpuprof := fs.String("cpuprofile", "", "")
	fs.Parse(args)
	info := scen.Get(*scName)
	if info == nil {
		return 2
	}
	if *cpuprof != "" {
		f, _ := os.Create(*cpuprof)
		_ = pprof.StartCPUProfile(f)
		defer pprof.StopCPUProfile()
	}
	setAddressSpaceLimit(info.AddressSpaceLimit)
	oneProcessor(info)
	for idx := *from; idx < *to; idx++ {
		seed := RunSeed(*batch, *scName, idx)
		plan := info.Sc.Generate(seed, tierFor(*tier, idx))
		out, _ := engine.RunInProcess(info.Sc, plan, engine.NewStats(), nil, false)
		f := "ok"
		if out.Fail != nil {
			f = out.Fail.Invariant + fmt.Sprintf("@%d", out.Fail.Step)
		}
		if out.Harness != nil {
			f = "harness:" + out.Harness.Msg
		}
		fmt.Printf("%d %016x %016x %s\n", idx, engine.PlanHash(plan), out.Fingerprint, f)
	}
	return 0
}
